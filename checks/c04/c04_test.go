// C04 — ACL privilege rules cannot be bypassed by any constructible record.
//
// Explicit-state search on the real, fully validating ACL list: states are reached by replaying accepted raw
// records; from every state the complete crafted-record alphabet (every content kind x author x target x
// permission x invite id x request id, assembled and signed by hand so that no client-side builder check
// applies) is offered to ValidateRawRecord; every accepted transition is judged against the privilege
// invariants of the property on (state before, state after, author, content), then cross-checked through
// AddRawRecord and a rebuild from the raw log, and becomes a new frontier state.
package c04

import (
	"fmt"
	"math/rand"
	"sort"
	"strings"
	"sync"
	"testing"
	"time"

	"go.uber.org/zap"

	"github.com/anyproto/any-sync/app/logger"
	"github.com/anyproto/any-sync/commonspace/object/acl/aclrecordproto"
	"github.com/anyproto/any-sync/commonspace/object/acl/list"
	"github.com/anyproto/any-sync/commonspace/object/acl/recordverifier"
	"github.com/anyproto/any-sync/consensus/consensusproto"
	"github.com/anyproto/any-sync/util/crypto"

	. "verif/lib/aclsim"
	"verif/lib/vk"
)

var roles = []string{"O", "A1", "A2", "W", "R", "G", "M", "X"}

type meta struct {
	Kind     string `json:"kind"`
	Author   string `json:"author"`
	Target   string `json:"target,omitempty"`
	Perm     string `json:"perm,omitempty"`
	Invite   string `json:"invite,omitempty"`  // role-relative description of the invite referenced
	Request  string `json:"request,omitempty"` // role-relative description of the request referenced
	Variant  string `json:"variant,omitempty"`
	inviteId string
	perm     Perm
}

func (m meta) String() string {
	s := m.Kind + " by " + m.Author
	for _, p := range []string{m.Target, m.Perm, m.Invite, m.Request, m.Variant} {
		if p != "" {
			s += " " + p
		}
	}
	return s
}

type crafted struct {
	m        meta
	contents []*aclrecordproto.AclContentValue
}

type node struct {
	sim   *Sim
	trail []string // how the state was reached (labels)
	depth int
}

// inviteKeyFor returns a fresh deterministic invite key pair.
func inviteKey(seed int64, n int) crypto.PrivKey {
	k, _, err := crypto.GenerateEd25519Key(rand.New(rand.NewSource(seed*31 + int64(n) + 5)))
	if err != nil {
		panic(err)
	}
	return k
}

// recipients computes the identities a valid read-key change must address in state st, excluding removed.
func recipients(s *Sim, st *list.AclState, removed map[string]bool) (accs [][]byte, invs [][]byte) {
	for _, a := range st.CurrentAccounts() {
		if a.Permissions.NoPermissions() || removed[s.NameOf(a.PubKey)] {
			continue
		}
		p, _ := a.PubKey.Marshall()
		accs = append(accs, p)
	}
	for _, inv := range st.Invites(aclrecordproto.AclInviteType_AnyoneCanJoin) {
		p, _ := inv.Key.Marshall()
		invs = append(invs, p)
	}
	return
}

func metaPub(s *Sim) []byte {
	p, _ := s.Acc("O").Pub().Marshall()
	return p
}

// alphabet enumerates the crafted records offered in a state.
func alphabet(s *Sim, st *list.AclState, abs Abs, full bool) (out []crafted) {
	accs := s.Accounts
	add := func(m meta, c ...*aclrecordproto.AclContentValue) { out = append(out, crafted{m, c}) }
	type ref struct{ id, desc string }
	var invRefs, reqRefs []ref
	for _, i := range abs.Invites {
		invRefs = append(invRefs, ref{i.Id, fmt.Sprintf("invite(type=%d,%s)", i.Type, PermName(i.Perm))})
	}
	for _, r := range abs.Requests {
		k := "remove"
		if r.Join {
			k = "join"
		}
		reqRefs = append(reqRefs, ref{r.Id, fmt.Sprintf("%s-request-of-%s", k, r.Who)})
	}
	invAll := append(append([]ref{}, invRefs...), ref{"bafyunknowninvite", "unknown-invite"})
	if len(reqRefs) > 0 {
		invAll = append(invAll, ref{reqRefs[0].id, "a-request-id-as-invite"})
	}
	reqAll := append(append([]ref{}, reqRefs...), ref{"bafyunknownrequest", "unknown-request"})
	if len(invRefs) > 0 {
		reqAll = append(reqAll, ref{invRefs[0].id, "an-invite-id-as-request"})
	}
	requester := func(id string) *Account {
		for _, r := range abs.Requests {
			if r.Id == id && r.Who != "?" {
				return s.Acc(r.Who)
			}
		}
		return nil
	}
	for _, au := range accs {
		a := au.Name
		for _, t := range accs {
			for _, p := range permLevels {
				add(meta{Kind: "PermissionChange", Author: a, Target: t.Name, Perm: PermName(p), perm: p}, CPermissionChange(t, p))
				add(meta{Kind: "AccountsAdd", Author: a, Target: t.Name, Perm: PermName(p), perm: p}, CAccountsAdd(p, t))
				add(meta{Kind: "OwnershipChange", Author: a, Target: t.Name, Perm: PermName(p), perm: p}, COwnershipChange(t, p))
			}
			// removal with a correct rotation and with an off-by-one recipient set
			rmAcc, rmInv := recipients(s, st, map[string]bool{t.Name: true})
			add(meta{Kind: "AccountRemove", Author: a, Target: t.Name, Variant: "correct-recipients"}, CAccountRemove(ReadKeyChange(metaPub(s), rmAcc, rmInv), t))
			if full {
				allAcc, _ := recipients(s, st, nil)
				add(meta{Kind: "AccountRemove", Author: a, Target: t.Name, Variant: "recipients-include-removed"}, CAccountRemove(ReadKeyChange(metaPub(s), allAcc, rmInv), t))
			}
		}
		// two removals in one content
		if full {
			for _, pair := range [][2]string{{"W", "R"}, {"A2", "W"}, {"O", "W"}, {"G", "R"}} {
				if pair[0] == a || pair[1] == a {
					continue
				}
				rmAcc, rmInv := recipients(s, st, map[string]bool{pair[0]: true, pair[1]: true})
				add(meta{Kind: "AccountRemove", Author: a, Target: pair[0] + "+" + pair[1], Variant: "two"}, CAccountRemove(ReadKeyChange(metaPub(s), rmAcc, rmInv), s.Acc(pair[0]), s.Acc(pair[1])))
			}
			// multi permission change content
			add(meta{Kind: "PermissionChanges", Author: a, Target: "W+A2", Perm: "Reader,Writer"}, CPermissionChanges(
				&aclrecordproto.AclAccountPermissionChange{Identity: s.Acc("W").Proto, Permissions: Reader},
				&aclrecordproto.AclAccountPermissionChange{Identity: s.Acc("A2").Proto, Permissions: Writer}))
			add(meta{Kind: "PermissionChanges", Author: a, Target: "R+W", Perm: "Writer,Admin"}, CPermissionChanges(
				&aclrecordproto.AclAccountPermissionChange{Identity: s.Acc("R").Proto, Permissions: Writer},
				&aclrecordproto.AclAccountPermissionChange{Identity: s.Acc("W").Proto, Permissions: Admin}))
		}
		for ti, typ := range []aclrecordproto.AclInviteType{aclrecordproto.AclInviteType_RequestToJoin, aclrecordproto.AclInviteType_AnyoneCanJoin} {
			for _, p := range permLevels {
				k := inviteKey(s.Seed, len(s.Log)*100+ti*10+int(p))
				add(meta{Kind: "Invite", Author: a, Variant: fmt.Sprintf("type=%d", typ), Perm: PermName(p), perm: p}, CInvite(k.GetPublic(), typ, p))
			}
		}
		for _, iv := range invAll {
			for _, p := range permLevels {
				add(meta{Kind: "InviteChange", Author: a, Invite: iv.desc, Perm: PermName(p), inviteId: iv.id, perm: p}, CInviteChange(iv.id, p))
				add(meta{Kind: "InviteJoin", Author: a, Invite: iv.desc, Perm: PermName(p), inviteId: iv.id, perm: p}, CInviteJoin(iv.id, au, s.InviteKeys[iv.id], p))
			}
			add(meta{Kind: "InviteRevoke", Author: a, Invite: iv.desc, inviteId: iv.id}, CInviteRevoke(iv.id))
			add(meta{Kind: "RequestJoin", Author: a, Invite: iv.desc, inviteId: iv.id}, CRequestJoin(iv.id, au, s.InviteKeys[iv.id]))
			if full {
				other := s.Acc("X")
				if a == "X" {
					other = s.Acc("R")
				}
				add(meta{Kind: "RequestJoin", Author: a, Invite: iv.desc, Variant: "for-" + other.Name, inviteId: iv.id}, CRequestJoin(iv.id, other, s.InviteKeys[iv.id]))
				add(meta{Kind: "InviteJoin", Author: a, Invite: iv.desc, Variant: "for-" + other.Name, Perm: "Writer", inviteId: iv.id, perm: Writer}, CInviteJoin(iv.id, other, s.InviteKeys[iv.id], Writer))
			}
		}
		for _, rq := range reqAll {
			who := requester(rq.id)
			for _, p := range permLevels {
				if who != nil {
					add(meta{Kind: "RequestAccept", Author: a, Request: rq.desc, Target: who.Name, Perm: PermName(p), perm: p}, CRequestAccept(rq.id, who, p))
				}
				if who == nil || full {
					add(meta{Kind: "RequestAccept", Author: a, Request: rq.desc, Target: "X", Variant: "identity-not-requester", Perm: PermName(p), perm: p}, CRequestAccept(rq.id, s.Acc("X"), p))
				}
			}
			add(meta{Kind: "RequestDecline", Author: a, Request: rq.desc}, CRequestDecline(rq.id))
			add(meta{Kind: "RequestCancel", Author: a, Request: rq.desc}, CRequestCancel(rq.id))
		}
		add(meta{Kind: "RequestRemove", Author: a}, CRequestRemove())
		okAcc, okInv := recipients(s, st, nil)
		add(meta{Kind: "ReadKeyChange", Author: a, Variant: "correct-recipients"}, CReadKeyChange(ReadKeyChange(metaPub(s), okAcc, okInv)))
		if len(okAcc) > 1 {
			add(meta{Kind: "ReadKeyChange", Author: a, Variant: "one-recipient-missing"}, CReadKeyChange(ReadKeyChange(metaPub(s), okAcc[1:], okInv)))
		}
		add(meta{Kind: "ReadKeyChange", Author: a, Variant: "extra-outsider-recipient"}, CReadKeyChange(ReadKeyChange(metaPub(s), append(append([][]byte{}, okAcc...), NewAccount(s.Seed, "~stranger").Proto), okInv)))
		add(meta{Kind: "SpaceOptionsChange", Author: a}, COptions(uint32(len(s.Log))))
	}
	return
}

// representatives is the reduced per-kind content set used for two-content batch records.
func representatives(s *Sim, st *list.AclState, abs Abs, au *Account) (out []crafted) {
	a := au.Name
	add := func(m meta, c *aclrecordproto.AclContentValue) { out = append(out, crafted{m, []*aclrecordproto.AclContentValue{c}}) }
	pc := func(t string, p Perm) {
		add(meta{Kind: "PermissionChange", Author: a, Target: t, Perm: PermName(p), perm: p}, CPermissionChange(s.Acc(t), p))
	}
	pc("W", Admin)
	pc("A2", Writer)
	pc("R", Writer)
	pc("G", Reader)
	for _, x := range []struct {
		t string
		p Perm
	}{{"X", Writer}, {"X", Admin}, {"M", Guest}} {
		add(meta{Kind: "AccountsAdd", Author: a, Target: x.t, Perm: PermName(x.p), perm: x.p}, CAccountsAdd(x.p, s.Acc(x.t)))
	}
	add(meta{Kind: "OwnershipChange", Author: a, Target: "A1", Perm: "Admin", perm: Admin}, COwnershipChange(s.Acc("A1"), Admin))
	add(meta{Kind: "OwnershipChange", Author: a, Target: "W", Perm: "Reader", perm: Reader}, COwnershipChange(s.Acc("W"), Reader))
	for _, t := range []string{"W", "A2", "O"} {
		ra, ri := recipients(s, st, map[string]bool{t: true})
		add(meta{Kind: "AccountRemove", Author: a, Target: t, Variant: "correct-recipients"}, CAccountRemove(ReadKeyChange(metaPub(s), ra, ri), s.Acc(t)))
	}
	add(meta{Kind: "Invite", Author: a, Variant: "type=1", Perm: "Writer", perm: Writer}, CInvite(inviteKey(s.Seed, 9001).GetPublic(), aclrecordproto.AclInviteType_AnyoneCanJoin, Writer))
	add(meta{Kind: "Invite", Author: a, Variant: "type=1", Perm: "Admin", perm: Admin}, CInvite(inviteKey(s.Seed, 9002).GetPublic(), aclrecordproto.AclInviteType_AnyoneCanJoin, Admin))
	add(meta{Kind: "Invite", Author: a, Variant: "type=0", Perm: "None"}, CInvite(inviteKey(s.Seed, 9003).GetPublic(), aclrecordproto.AclInviteType_RequestToJoin, None))
	for _, iv := range abs.Invites {
		desc := fmt.Sprintf("invite(type=%d,%s)", iv.Type, PermName(iv.Perm))
		if iv.Type == aclrecordproto.AclInviteType_AnyoneCanJoin {
			add(meta{Kind: "InviteChange", Author: a, Invite: desc, Perm: "Admin", inviteId: iv.Id, perm: Admin}, CInviteChange(iv.Id, Admin))
			add(meta{Kind: "InviteJoin", Author: a, Invite: desc, Perm: "Writer", inviteId: iv.Id, perm: Writer}, CInviteJoin(iv.Id, au, s.InviteKeys[iv.Id], Writer))
			add(meta{Kind: "InviteJoin", Author: a, Invite: desc, Perm: "Admin", inviteId: iv.Id, perm: Admin}, CInviteJoin(iv.Id, au, s.InviteKeys[iv.Id], Admin))
		} else {
			add(meta{Kind: "RequestJoin", Author: a, Invite: desc, inviteId: iv.Id}, CRequestJoin(iv.Id, au, s.InviteKeys[iv.Id]))
		}
		add(meta{Kind: "InviteRevoke", Author: a, Invite: desc, inviteId: iv.Id}, CInviteRevoke(iv.Id))
	}
	for _, r := range abs.Requests {
		if r.Who == "?" {
			continue
		}
		k := "remove"
		if r.Join {
			k = "join"
		}
		desc := fmt.Sprintf("%s-request-of-%s", k, r.Who)
		add(meta{Kind: "RequestAccept", Author: a, Request: desc, Target: r.Who, Perm: "Writer", perm: Writer}, CRequestAccept(r.Id, s.Acc(r.Who), Writer))
		add(meta{Kind: "RequestAccept", Author: a, Request: desc, Target: r.Who, Perm: "Admin", perm: Admin}, CRequestAccept(r.Id, s.Acc(r.Who), Admin))
		add(meta{Kind: "RequestDecline", Author: a, Request: desc}, CRequestDecline(r.Id))
		add(meta{Kind: "RequestCancel", Author: a, Request: desc}, CRequestCancel(r.Id))
	}
	add(meta{Kind: "RequestRemove", Author: a}, CRequestRemove())
	ra, ri := recipients(s, st, nil)
	add(meta{Kind: "ReadKeyChange", Author: a, Variant: "correct-recipients"}, CReadKeyChange(ReadKeyChange(metaPub(s), ra, ri)))
	add(meta{Kind: "SpaceOptionsChange", Author: a}, COptions(7))
	return
}

// ---- oracle ----------------------------------------------------------------------------------------

type finding struct{ key, what string }

func isManager(p Perm) bool { return p == Owner || p == Admin }

// permLevels: the six defined levels and two the protocol does not define (the field is a plain varint on the wire, a
// hand-made record can carry any value): an account or invite that ends up with such a level is a member without any
// of the listed powers.
var permLevels = append(append([]Perm{}, AllPerms...), Perm(-1), Perm(6))


func permRank(p Perm) int {
	switch p {
	case None:
		return 0
	case Guest:
		return 1
	case Reader:
		return 1
	case Writer:
		return 2
	case Admin:
		return 3
	case Owner:
		return 4
	}
	return 9
}

func invitesEqual(a, b []AbsInvite) bool {
	if len(a) != len(b) {
		return false
	}
	for i := range a {
		if a[i].Id != b[i].Id || a[i].Type != b[i].Type || a[i].Perm != b[i].Perm {
			return false
		}
	}
	return true
}

func judge(before, after Abs, ms []meta) (out []finding) {
	author := ms[0].Author
	kinds := ""
	for i, m := range ms {
		if i > 0 {
			kinds += "+"
		}
		kinds += m.Kind
	}
	add := func(k, f string, a ...any) {
		out = append(out, finding{k + ":via=" + kinds + ":author=" + roleClass(before, author), fmt.Sprintf(f, a...)})
	}
	ap := before.Accounts[author].Perm
	if len(before.Owners) != 1 || len(after.Owners) != 1 {
		add("owner-count", "owners before %v, after %v", before.Owners, after.Owners)
		if len(before.Owners) != 1 {
			return
		}
	}
	ownerB := before.Owners[0]
	isOwner := author == ownerB
	names := map[string]bool{}
	for n := range before.Accounts {
		names[n] = true
	}
	for n := range after.Accounts {
		names[n] = true
	}
	var sorted []string
	for n := range names {
		sorted = append(sorted, n)
	}
	sort.Strings(sorted)
	liveInvite := func(id string, typ aclrecordproto.AclInviteType) *AbsInvite {
		for i := range before.Invites {
			if before.Invites[i].Id == id && before.Invites[i].Type == typ {
				return &before.Invites[i]
			}
		}
		return nil
	}
	var joinInvite *AbsInvite // the live anyone-can-join invite an InviteJoin content of this record refers to
	var reqInvite *AbsInvite
	for _, m := range ms {
		if m.Kind == "InviteJoin" {
			if iv := liveInvite(m.inviteId, aclrecordproto.AclInviteType_AnyoneCanJoin); iv != nil {
				joinInvite = iv
			}
		}
		if m.Kind == "RequestJoin" {
			if iv := liveInvite(m.inviteId, aclrecordproto.AclInviteType_RequestToJoin); iv != nil {
				reqInvite = iv
			}
		}
	}
	for _, n := range sorted {
		b, a := before.Accounts[n], after.Accounts[n]
		if b.Perm == a.Perm && b.Status == a.Status {
			continue
		}
		desc := fmt.Sprintf("%s: %s/%s -> %s/%s", n, PermName(b.Perm), StatusName(b.Status), PermName(a.Perm), StatusName(a.Status))
		// admin role granted or revoked only by the owner (by any route)
		if (b.Perm == Admin) != (a.Perm == Admin) && !isOwner {
			viaOwnerInvite := n == author && b.Perm == None && a.Perm == Admin && joinInvite != nil && joinInvite.Perm == Admin
			if !viaOwnerInvite {
				add("admin-role-changed-by-non-owner", "%s changed the Admin role: %s", author, desc)
			}
		}
		// the owner is never demoted or removed by others; ownership moves only by the owner's own transfer
		if (b.Perm == Owner) != (a.Perm == Owner) && !isOwner {
			add("ownership-changed-by-non-owner", "%s changed ownership: %s", author, desc)
		}
		// guests are never re-permissioned (only removal to None)
		if b.Perm == Guest && a.Perm != Guest && a.Perm != None {
			add("guest-repermissioned", "%s re-permissioned a guest: %s", author, desc)
		}
		if n != author {
			// acting on another account needs owner / admin
			if !isManager(ap) {
				add("non-manager-changed-other-account", "%s (%s) changed another account: %s", author, PermName(ap), desc)
			}
			continue
		}
		// n == author: what an account may do to itself
		switch {
		case ap == None:
			// outsider: gains access only through a live invite, with at most its permissions
			if a.Perm != None {
				if joinInvite == nil {
					add("outsider-gained-access-without-live-invite", "%s gained %s without a live anyone-can-join invite", author, PermName(a.Perm))
				} else if permRank(a.Perm) > permRank(joinInvite.Perm) || a.Perm == Guest || a.Perm == Owner {
					add("outsider-exceeded-invite-permissions", "%s gained %s through an invite granting %s", author, PermName(a.Perm), PermName(joinInvite.Perm))
				}
			} else if a.Status == list.StatusJoining && b.Status != list.StatusJoining && reqInvite == nil {
				add("join-request-without-live-invite", "%s created a pending join request without a live request-to-join invite", author)
			}
		case !isManager(ap):
			// ordinary member: only its own request / status, never its permissions
			if a.Perm != b.Perm {
				add("member-changed-own-permissions", "%s changed its own permissions: %s", author, desc)
			}
		default:
			if a.Perm != b.Perm && !isOwner && !(b.Perm == Admin) {
				add("manager-changed-own-permissions", "%s changed its own permissions: %s", author, desc)
			}
		}
	}
	if !invitesEqual(before.Invites, after.Invites) {
		if !isManager(ap) {
			add("invites-changed-by-non-manager", "%s (%s) changed the invites: %v -> %v", author, PermName(ap), before.Invites, after.Invites)
		}
		if !isOwner {
			// an Admin-granting invite must come from the owner
			for _, ai := range after.Invites {
				// only an anyone-can-join invite grants its permissions; a request-to-join invite's permission
				// field grants nothing (the approver chooses, and approving at Admin level needs the owner)
				if ai.Perm != Admin || ai.Type != aclrecordproto.AclInviteType_AnyoneCanJoin {
					continue
				}
				was := false
				for _, bi := range before.Invites {
					was = was || (bi.Id == ai.Id && bi.Perm == Admin)
				}
				if !was {
					add("admin-invite-by-non-owner", "%s created or raised an invite to Admin", author)
				}
			}
		}
	}
	if before.Options != after.Options && !isOwner {
		add("options-changed-by-non-owner", "%s changed the space options", author)
	}
	// pending requests of other accounts may only disappear / appear through managers
	if !isManager(ap) {
		reqs := func(a Abs) map[string]bool {
			m := map[string]bool{}
			for _, r := range a.Requests {
				if r.Who != author {
					m[fmt.Sprint(r.Who, r.Join)] = true
				}
			}
			return m
		}
		rb, ra := reqs(before), reqs(after)
		if fmt.Sprint(rb) != fmt.Sprint(ra) {
			add("non-manager-changed-others-requests", "%s changed other accounts' pending requests: %v -> %v", author, rb, ra)
		}
	}
	return
}

func roleClass(a Abs, who string) string {
	x := a.Accounts[who]
	if x.Perm == None {
		return "outsider(" + StatusName(x.Status) + ")"
	}
	return PermName(x.Perm)
}

// ---- search ----------------------------------------------------------------------------------------

func mustSubmit(s *Sim, label string, au string, c ...*aclrecordproto.AclContentValue) *consensusproto.RawRecordWithId {
	rec, err := s.Submit(s.Craft(s.Acc(au), s.HeadId(), c...))
	if err != nil {
		panic(fmt.Sprintf("seed step %q rejected: %v", label, err))
	}
	return rec
}

// seedStates builds the reachable states the design asks for with legit-shaped records.
func seedStates(seed int64) (out []*node) {
	s := New(seed, roles...)
	out = append(out, &node{sim: s.Fork(), trail: []string{"root"}})
	obsState := func(x *Sim) *list.AclState { return x.Full(Observer(x.Seed)).AclState() }
	mustSubmit(s, "add admins", "O", CAccountsAdd(Admin, s.Acc("A1"), s.Acc("A2")))
	mustSubmit(s, "add members", "A1", CAccountsAdd(Writer, s.Acc("W"), s.Acc("M")))
	mustSubmit(s, "add reader", "A2", CAccountsAdd(Reader, s.Acc("R")))
	mustSubmit(s, "add guest", "O", CAccountsAdd(Guest, s.Acc("G")))
	out = append(out, &node{sim: s.Fork(), trail: []string{"members"}})
	// remove M with rotation
	ra, ri := recipients(s, obsState(s), map[string]bool{"M": true})
	mustSubmit(s, "remove M", "A1", CAccountRemove(ReadKeyChange(metaPub(s), ra, ri), s.Acc("M")))
	// invites: request-to-join by A1, anyone-can-join Writer by A2, anyone-can-join Admin by O, one revoked
	kReq, kAny, kAdm, kRev := inviteKey(seed, 1), inviteKey(seed, 2), inviteKey(seed, 3), inviteKey(seed, 4)
	r := mustSubmit(s, "invite req", "A1", CInvite(kReq.GetPublic(), aclrecordproto.AclInviteType_RequestToJoin, None))
	s.InviteKeys[r.Id] = kReq
	reqInviteId := r.Id
	r = mustSubmit(s, "invite anyone writer", "A2", CInvite(kAny.GetPublic(), aclrecordproto.AclInviteType_AnyoneCanJoin, Writer))
	s.InviteKeys[r.Id] = kAny
	r = mustSubmit(s, "invite to revoke", "A1", CInvite(kRev.GetPublic(), aclrecordproto.AclInviteType_AnyoneCanJoin, Reader))
	s.InviteKeys[r.Id] = kRev
	mustSubmit(s, "revoke", "A2", CInviteRevoke(r.Id))
	out = append(out, &node{sim: s.Fork(), trail: []string{"members+invites"}})
	withAdm := s.Fork()
	r = mustSubmit(withAdm, "invite anyone admin", "O", CInvite(kAdm.GetPublic(), aclrecordproto.AclInviteType_AnyoneCanJoin, Admin))
	withAdm.InviteKeys[r.Id] = kAdm
	out = append(out, &node{sim: withAdm, trail: []string{"members+invites+admin-invite"}})
	// pending requests: X asks to join, A2 (admin) and W ask to leave
	mustSubmit(s, "X requests join", "X", CRequestJoin(reqInviteId, s.Acc("X"), kReq))
	mustSubmit(s, "A2 requests removal", "A2", CRequestRemove())
	mustSubmit(s, "W requests removal", "W", CRequestRemove())
	out = append(out, &node{sim: s.Fork(), trail: []string{"members+invites+pending(join X, remove A2, remove W)"}})
	return
}

func TestCheck(t *testing.T) {
	logger.SetDefault(zap.NewNop())
	logger.SetNamedLevels(logger.LevelsFromStr("*=fatal"))
	vk.Main(t, vk.Spec{
		Prop:  "C04",
		Level: "model_checking",
		Rule: "explicit-state BFS over ACL states of the real validating list: 5 scripted seed states (root; members of every role; + live invites of both types and a revoked one; + an owner-made Admin invite; + pending join / admin-leave / writer-leave requests) and everything reachable from them by accepted crafted records up to the depth bound; " +
			"from every state the full hand-signed record alphabet (16 content kinds x 8 authors x targets x 8 permission levels (the 6 defined ones, -1 and 6) x invite ids x request ids, incl. unknown / cross-kind ids and wrong recipient sets) is offered to ValidateRawRecord; " +
			"states = distinct abstract states (role-relative, ids dropped); transitions = crafted records evaluated; distinct_nontrivial = distinct (state, accepted record class) pairs",
		Assumptions: []string{
			"8 accounts (owner, 2 admins, writer, reader, guest, removed member, outsider); the validating list is observed by a non-member identity so that key material in crafted records may be placeholders",
			"abstract-state deduplication drops record ids; every validator rule refers to ids only through lookups of invites / requests, which the alphabet re-enumerates per state",
		},
		Budget: func(tier string) time.Duration {
			if tier == "quick" {
				return 100 * time.Second
			}
			return 25 * time.Minute
		},
	}, body)
}

type shared struct {
	mu      sync.Mutex
	seen    map[string]bool
	reached map[string]bool // vacuity: which interesting state features were reached
}

func body(c *vk.Ctx) {
	maxDepth := vk.Pick(c, 1, 2)
	c.Bound("depth_from_seed_states", maxDepth)
	if c.Replay != "" {
		// the search is re-run; only the state named in the recorded violation is judged
		var rf struct {
			Case struct {
				Before string `json:"before"`
			} `json:"case"`
			What string `json:"what"`
		}
		if err := vk.ReadJSON(c.Replay, &rf); err != nil {
			c.Broken("replay file: %v", err)
			return
		}
		replayCanon = rf.Case.Before
		if replayCanon == "" {
			// violations recorded without a case carry the state in their text: "state [<canon>]"
			if i := strings.Index(rf.What, "state ["); i >= 0 {
				rest := rf.What[i+len("state ["):]
				if j := strings.Index(rest, "]"); j >= 0 {
					replayCanon = rest[:j]
				}
			}
		}
		if replayCanon == "" {
			c.Broken("replay file names no state")
			return
		}
	}
	seeds := seedStates(c.Seed)
	c.Bound("seed_states", len(seeds))
	sh := &shared{seen: map[string]bool{}, reached: map[string]bool{}}
	frontier := seeds
	for depth := 0; depth <= maxDepth && len(frontier) > 0; depth++ {
		var next []*node
		var nmu sync.Mutex
		var wg sync.WaitGroup
		sem := make(chan struct{}, 16)
		for _, n := range frontier {
			wg.Add(1)
			sem <- struct{}{}
			go func(n *node) {
				defer wg.Done()
				defer func() { <-sem }()
				succ := expand(c, sh, n, depth < maxDepth)
				nmu.Lock()
				next = append(next, succ...)
				nmu.Unlock()
			}(n)
		}
		wg.Wait()
		if c.TimeUp() {
			c.NotExhaustive(fmt.Sprintf("deadline while expanding depth %d", depth))
			break
		}
		c.Bound(fmt.Sprintf("states_expanded_at_depth_%d", depth), len(frontier))
		sort.Slice(next, func(i, j int) bool { return strings.Join(next[i].trail, ";") < strings.Join(next[j].trail, ";") })
		frontier = next
	}
	for _, f := range []string{"two-admins", "guest", "removed-member", "pending-join", "pending-remove-of-admin", "invite-request", "invite-anyone", "admin-invite"} {
		c.Require(sh.reached[f], "vacuity: no explored state with feature %q", f)
	}
}

func features(a Abs) (f []string) {
	admins := 0
	for _, x := range a.Accounts {
		if x.Perm == Admin {
			admins++
		}
		if x.Perm == Guest {
			f = append(f, "guest")
		}
		if x.Status == list.StatusRemoved {
			f = append(f, "removed-member")
		}
	}
	if admins >= 2 {
		f = append(f, "two-admins")
	}
	for _, r := range a.Requests {
		if r.Join {
			f = append(f, "pending-join")
		} else if a.Accounts[r.Who].Perm == Admin {
			f = append(f, "pending-remove-of-admin")
		}
	}
	for _, i := range a.Invites {
		if i.Type == aclrecordproto.AclInviteType_RequestToJoin {
			f = append(f, "invite-request")
		} else {
			f = append(f, "invite-anyone")
			if i.Perm == Admin {
				f = append(f, "admin-invite")
			}
		}
	}
	return
}

// replayCanon restricts judging to one abstract state (replay of a recorded violation).
var replayCanon string

func report(c *vk.Ctx, canon, key, what string, rep any) {
	if replayCanon != "" && canon != replayCanon {
		return
	}
	c.Violation(key, what, rep)
}

func expand(c *vk.Ctx, sh *shared, n *node, grow bool) (succ []*node) {
	s := n.sim
	obs := Observer(s.Seed)
	l := s.Full(obs)
	before := s.Abstract(l.AclState())
	canon := before.Canon()
	sh.mu.Lock()
	if sh.seen[canon] {
		sh.mu.Unlock()
		return nil
	}
	sh.seen[canon] = true
	for _, f := range features(before) {
		sh.reached[f] = true
	}
	sh.mu.Unlock()
	c.Distinct("states", canon)
	alpha := alphabet(s, l.AclState(), before, c.Thorough() || n.depth == 0)
	accepted := 0
	for _, cr := range alpha {
		if c.TimeUp() {
			c.NotExhaustive("deadline inside a state's alphabet")
			return
		}
		raw := s.Craft(s.Acc(cr.m.Author), s.HeadId(), cr.contents...)
		var after Abs
		ok := false
		var verr error
		if p, what := vk.Recover(func() {
			verr = l.ValidateRawRecord(raw, func(st *list.AclState) error {
				after = s.Abstract(st)
				ok = true
				return nil
			})
		}); p {
			c.Count("panics", 1)
			// a panic on a constructible record is C11's business; here it only means "not accepted"
			_ = what
			verr = fmt.Errorf("panic")
		}
		c.Count("transitions", 1)
		c.Count("executions", 1)
		if verr != nil || !ok {
			continue
		}
		accepted++
		c.Distinct("distinct", canon+"|"+cr.m.Kind+"|"+roleClass(before, cr.m.Author)+"|"+cr.m.Perm+"|"+cr.m.Variant)
		for _, f := range judge(before, after, []meta{cr.m}) {
			report(c, canon, f.key, fmt.Sprintf("state [%s] reached by %v; crafted record {%s} was accepted: %s; state after [%s]", canon, n.trail, cr.m, f.what, after.Canon()),
				map[string]any{"trail": n.trail, "record": cr.m, "before": canon, "after": after.Canon()})
		}
		// cross-check: AddRawRecord on a fresh list and a rebuild from the raw log agree with ValidateRawRecord
		rec := WithId(raw)
		fresh := s.Full(obs)
		if err := fresh.AddRawRecord(rec); err != nil {
			report(c, canon, "verdict-mismatch:validate-accepts-add-rejects:"+cr.m.Kind, fmt.Sprintf("state [%s]: {%s} accepted by ValidateRawRecord but AddRawRecord says %v", canon, cr.m, err), nil)
			continue
		}
		if got := s.Abstract(fresh.AclState()).Canon(); got != after.Canon() {
			report(c, canon, "state-mismatch:add-vs-validate:"+cr.m.Kind, fmt.Sprintf("state [%s]: {%s}: AddRawRecord state [%s] != ValidateRawRecord state [%s]", canon, cr.m, got, after.Canon()), nil)
		}
		ns := s.Fork()
		ns.Append(rec)
		if cr.m.Kind == "Invite" {
			// remember the invite key so that later states can join through it
			ns.InviteKeys[rec.Id] = inviteKey(s.Seed, len(s.Log)*100+variantType(cr.m.Variant)*10+int(cr.m.perm))
		}
		rebuilt, err := ns.View(obs, len(ns.Log), recordverifier.NewValidateFull())
		if err != nil {
			report(c, canon, "verdict-mismatch:rebuild-rejects:"+cr.m.Kind, fmt.Sprintf("state [%s]: {%s} accepted but a list rebuilt from the raw log fails: %v", canon, cr.m, err), nil)
			continue
		}
		if got := ns.Abstract(rebuilt.AclState()).Canon(); got != after.Canon() {
			report(c, canon, "state-mismatch:rebuild-vs-validate:"+cr.m.Kind, fmt.Sprintf("state [%s]: {%s}: rebuilt state [%s] != ValidateRawRecord state [%s]", canon, cr.m, got, after.Canon()), nil)
		}
		if grow {
			sh.mu.Lock()
			dup := sh.seen[after.Canon()]
			sh.mu.Unlock()
			if !dup {
				succ = append(succ, &node{sim: ns, trail: append(append([]string{}, n.trail...), cr.m.String()), depth: n.depth + 1})
			}
		}
	}
	batches, batchAccepted := 0, 0
	if n.depth == 0 || c.Thorough() {
		batches, batchAccepted = expandBatches(c, n, l, before, canon)
	}
	if len(n.trail) <= 2 {
		c.Sample(map[string]any{"state": canon, "reached_by": n.trail, "crafted_records_offered": len(alpha), "accepted": accepted,
			"two_content_batches_offered": batches, "two_content_batches_accepted": batchAccepted})
	}
	return
}

// validate offers one crafted record to the validating list and returns the abstract state after it.
func validate(s *Sim, l list.AclList, author string, contents ...*aclrecordproto.AclContentValue) (after Abs, ok bool) {
	raw := s.Craft(s.Acc(author), s.HeadId(), contents...)
	vk.Recover(func() {
		err := l.ValidateRawRecord(raw, func(st *list.AclState) error {
			after = s.Abstract(st)
			ok = true
			return nil
		})
		if err != nil {
			ok = false
		}
	})
	return
}

// expandBatches offers every ordered pair of representative contents as one two-content record per author. An accepted
// batch is judged content by content: the state between the two contents is the state after the first content alone.
func expandBatches(c *vk.Ctx, n *node, l list.AclList, before Abs, canon string) (offered, accepted int) {
	s := n.sim
	for _, au := range s.Accounts {
		reps := representatives(s, l.AclState(), before, au)
		single := make([]*Abs, len(reps))
		for i, r := range reps {
			if mid, ok := validate(s, l, au.Name, r.contents...); ok {
				m := mid
				single[i] = &m
			}
			c.Count("transitions", 1)
			c.Count("executions", 1)
		}
		for i, r1 := range reps {
			for _, r2 := range reps {
				if c.TimeUp() {
					c.NotExhaustive("deadline inside two-content batches")
					return
				}
				offered++
				after, ok := validate(s, l, au.Name, r1.contents[0], r2.contents[0])
				c.Count("transitions", 1)
				c.Count("executions", 1)
				if !ok {
					continue
				}
				accepted++
				label := fmt.Sprintf("batch[%s ; %s]", r1.m, r2.m)
				c.Distinct("distinct", canon+"|batch|"+r1.m.Kind+"+"+r2.m.Kind+"|"+roleClass(before, au.Name))
				if single[i] == nil {
					report(c, canon, "batch-accepted-but-first-content-alone-rejected:"+r1.m.Kind+"+"+r2.m.Kind+":author="+roleClass(before, au.Name),
						fmt.Sprintf("state [%s] reached by %v: %s accepted although its first content alone is rejected", canon, n.trail, label), nil)
					continue
				}
				mid := *single[i]
				for _, f := range judge(before, mid, []meta{r1.m}) {
					report(c, canon, "batch:"+f.key, fmt.Sprintf("state [%s] reached by %v; %s accepted; first content: %s", canon, n.trail, label, f.what), nil)
				}
				for _, f := range judge(mid, after, []meta{r2.m}) {
					report(c, canon, "batch:"+f.key, fmt.Sprintf("state [%s] reached by %v; %s accepted; second content (from intermediate state [%s]): %s; state after [%s]", canon, n.trail, label, mid.Canon(), f.what, after.Canon()), nil)
				}
			}
		}
	}
	return
}

func variantType(v string) int {
	if v == "type=1" {
		return 1
	}
	return 0
}
