package c17

// The world: a real pubsub service (node role or client role) with its private real stream pool, fake drpc
// streams carrying a handshake-proven identity, fake membership / relay / peer provider. Everything is created
// inside a testing/synctest bubble; after each event the harness waits for quiescence.

import (
	"context"
	"crypto/sha256"
	"encoding/binary"
	"errors"
	"fmt"
	"io"
	"sort"
	"strings"
	"sync"
	"testing/synctest"
	"time"

	"storj.io/drpc"

	"github.com/anyproto/any-sync/app"
	"github.com/anyproto/any-sync/commonspace/object/accountdata"
	"github.com/anyproto/any-sync/commonspace/pubsub"
	"github.com/anyproto/any-sync/commonspace/pubsub/pubsubproto"
	"github.com/anyproto/any-sync/net/peer"
	"github.com/anyproto/any-sync/net/streampool"
	"github.com/anyproto/any-sync/testutil/accounttest"
	"github.com/anyproto/any-sync/util/crypto"
)

// ---- accounts (deterministic keys) -----------------------------------------------------------------

type detReader struct {
	seed string
	n    uint64
	buf  []byte
}

func (r *detReader) Read(p []byte) (int, error) {
	for i := range p {
		if len(r.buf) == 0 {
			var ctr [8]byte
			binary.LittleEndian.PutUint64(ctr[:], r.n)
			r.n++
			h := sha256.Sum256(append([]byte(r.seed), ctr[:]...))
			r.buf = h[:]
		}
		p[i] = r.buf[0]
		r.buf = r.buf[1:]
	}
	return len(p), nil
}

type account struct {
	Name      string
	Keys      *accountdata.AccountKeys
	Pub       crypto.PubKey
	Identity  []byte // marshalled signing public key: what the handshake proves and what a Publish carries
	AccountId string
}

var (
	accounts   = map[string]*account{}
	accountsMu sync.Mutex
	byAcctId   = map[string]string{}
)

func acct(name string) *account {
	accountsMu.Lock()
	defer accountsMu.Unlock()
	if a, ok := accounts[name]; ok {
		return a
	}
	pk, _, err := crypto.GenerateEd25519Key(&detReader{seed: "c17-peer-" + name})
	if err != nil {
		panic(err)
	}
	sk, _, err := crypto.GenerateEd25519Key(&detReader{seed: "c17-sign-" + name})
	if err != nil {
		panic(err)
	}
	keys := accountdata.New(pk, sk)
	id, err := sk.GetPublic().Marshall()
	if err != nil {
		panic(err)
	}
	a := &account{Name: name, Keys: keys, Pub: sk.GetPublic(), Identity: id, AccountId: sk.GetPublic().Account()}
	accounts[name] = a
	byAcctId[a.AccountId] = name
	return a
}

func acctNameOf(accountId string) string {
	accountsMu.Lock()
	defer accountsMu.Unlock()
	if n, ok := byAcctId[accountId]; ok {
		return n
	}
	return "?" + accountId
}

func init() {
	for _, n := range []string{"S", "A", "B", "C", "N"} {
		acct(n)
	}
}

// expand replaces $A, $B … in topic / pattern templates by the account ids.
func expand(s string) string {
	if !strings.Contains(s, "$") {
		return s
	}
	for _, n := range []string{"S", "A", "B", "C", "N"} {
		s = strings.ReplaceAll(s, "$"+n, acct(n).AccountId)
	}
	return s
}

func expandAll(l []string) []string {
	out := make([]string, len(l))
	for i, s := range l {
		out[i] = expand(s)
	}
	return out
}

// unexpand is the inverse, for canonical state keys.
func unexpand(s string) string {
	if !strings.Contains(s, "acc/") {
		return s // account ids only ever appear inside the self-owned namespace
	}
	for _, n := range []string{"S", "A", "B", "C", "N"} {
		s = strings.ReplaceAll(s, acct(n).AccountId, "$"+n)
	}
	return s
}

func msgId(label string) []byte {
	if label == "qZ" {
		// the all-zero id: the value every never-used slot of the duplicate filter's ring holds
		return make([]byte, pubsub.VerifMsgIdLen)
	}
	h := sha256.Sum256([]byte("c17-msg-" + label))
	return h[:pubsub.VerifMsgIdLen]
}

// ---- static topology -----------------------------------------------------------------------------

type streamSpec struct {
	Name   string
	Acct   string // "" = no handshake identity in the context
	PeerId string
	Node   bool // a responsible node of every space
}

var streamSpecs = []streamSpec{
	{"s0", "A", "pA", false},
	{"s1", "A", "pA", false}, // sibling stream of the same peer
	{"s2", "B", "pB", false},
	{"n", "N", "pN", true},
	{"z", "", "pZ", false},
}

func specOf(name string) streamSpec {
	for _, s := range streamSpecs {
		if s.Name == name {
			return s
		}
	}
	panic("unknown stream " + name)
}

var spaces = []string{"X", "Y"}

// initial membership: A in both spaces, B only in X, S (the service's own account) in both; C and N nowhere.
func initialMembers() map[string]map[string]bool {
	return map[string]map[string]bool{
		"X": {"A": true, "B": true, "S": true},
		"Y": {"A": true, "S": true},
	}
}

const (
	capPerSpace  = 2
	capPerStream = 3
	skew         = 5 * time.Minute
	tickStep     = 6 * time.Minute
)

// ---- fakes ---------------------------------------------------------------------------------------

type fakeMembership struct {
	mu sync.Mutex
	m  map[string]map[string]bool // space -> account name
}

func (f *fakeMembership) is(space, name string) bool {
	f.mu.Lock()
	defer f.mu.Unlock()
	return f.m[space][name]
}

func (f *fakeMembership) set(space, name string, v bool) {
	f.mu.Lock()
	defer f.mu.Unlock()
	if f.m[space] == nil {
		f.m[space] = map[string]bool{}
	}
	if v {
		f.m[space][name] = true
	} else {
		delete(f.m[space], name)
	}
}

var errNotMember = errors.New("not a member")

func (f *fakeMembership) CheckMember(_ context.Context, spaceId string, identity crypto.PubKey) error {
	if f.is(spaceId, acctNameOf(identity.Account())) {
		return nil
	}
	return errNotMember
}

type fakePeer struct {
	peer.Peer
	id string
}

func (p *fakePeer) Id() string               { return p.id }
func (p *fakePeer) Context() context.Context { return context.Background() }
func (p *fakePeer) SetTTL(time.Duration)     {}
func (p *fakePeer) AcquireDrpcConn(context.Context) (drpc.Conn, error) {
	return nil, errors.New("fake peer: cannot dial")
}

type fakeRelay struct {
	mu       sync.Mutex
	forwards int
	noPeers  bool
}

func (f *fakeRelay) IsResponsible(spaceId string) bool { return spaceId == "X" || spaceId == "Y" }
func (f *fakeRelay) IsResponsibleNode(_, peerId string) bool {
	return peerId == "pN"
}
func (f *fakeRelay) OtherResponsiblePeers(context.Context, string) ([]peer.Peer, error) {
	f.mu.Lock()
	f.forwards++
	np := f.noPeers
	f.mu.Unlock()
	if np {
		return nil, nil
	}
	return []peer.Peer{&fakePeer{id: "pN"}}, nil
}
func (f *fakeRelay) takeForwards() int {
	f.mu.Lock()
	defer f.mu.Unlock()
	n := f.forwards
	f.forwards = 0
	return n
}

type fakePeers struct{}

func (fakePeers) SpacePeers(context.Context, string) ([]peer.Peer, error) {
	return []peer.Peer{&fakePeer{id: "pN"}}, nil
}

// fstream is a harness-owned drpc stream.
type fstream struct {
	spec    streamSpec
	ctx     context.Context
	cancel  context.CancelFunc
	in      chan *pubsubproto.PubSubMessage
	closeCh chan struct{}
	once    sync.Once
	mu      sync.Mutex
	out     []*pubsubproto.PubSubMessage
	id      uint32
}

func newFstream(spec streamSpec) *fstream {
	ctx := peer.CtxWithPeerId(context.Background(), spec.PeerId)
	if spec.Acct != "" {
		ctx = peer.CtxWithIdentity(ctx, acct(spec.Acct).Identity)
	}
	ctx, cancel := context.WithCancel(ctx)
	return &fstream{spec: spec, ctx: ctx, cancel: cancel, in: make(chan *pubsubproto.PubSubMessage), closeCh: make(chan struct{})}
}

func (s *fstream) Context() context.Context { return s.ctx }

func clone(m *pubsubproto.PubSubMessage) *pubsubproto.PubSubMessage {
	b, err := m.MarshalVT()
	if err != nil {
		panic(err)
	}
	out := &pubsubproto.PubSubMessage{}
	if err = out.UnmarshalVT(b); err != nil {
		panic(err)
	}
	return out
}

func (s *fstream) MsgSend(m drpc.Message, _ drpc.Encoding) error {
	select {
	case <-s.closeCh:
		return io.ErrClosedPipe
	default:
	}
	pm, ok := m.(*pubsubproto.PubSubMessage)
	if !ok {
		return fmt.Errorf("unexpected message type %T", m)
	}
	c := clone(pm)
	s.mu.Lock()
	s.out = append(s.out, c)
	s.mu.Unlock()
	return nil
}

func (s *fstream) MsgRecv(m drpc.Message, _ drpc.Encoding) error {
	select {
	case in := <-s.in:
		b, err := in.MarshalVT()
		if err != nil {
			return err
		}
		return m.(*pubsubproto.PubSubMessage).UnmarshalVT(b)
	case <-s.closeCh:
		return io.EOF
	}
}

func (s *fstream) CloseSend() error { return nil }
func (s *fstream) Close() error {
	s.once.Do(func() { close(s.closeCh) })
	return nil
}

func (s *fstream) closed() bool {
	select {
	case <-s.closeCh:
		return true
	default:
		return false
	}
}

func (s *fstream) take() []*pubsubproto.PubSubMessage {
	s.mu.Lock()
	defer s.mu.Unlock()
	out := s.out
	s.out = nil
	return out
}

// ---- world ---------------------------------------------------------------------------------------

type hcall struct {
	Sub     int
	Space   string
	Topic   string
	Account string
	Payload string
}

type lsub struct {
	id      int
	space   string
	pattern string
	unsub   func()
}

type world struct {
	role    string
	svc     pubsub.Service
	pool    streampool.StreamPool
	mem     *fakeMembership
	relay   *fakeRelay
	streams map[string]*fstream // current incarnation per name
	names   map[uint32]string   // pool stream id -> name
	t0      time.Time
	mu      sync.Mutex
	hlog    []hcall
	subs    []*lsub
	stale   []*lsub // handles of subscriptions dropped by CloseSpace
	nextSub int
	own     *pubsubproto.PubSubMessage // last frame of an own Publish seen on the node link
	sched   bool                       // running under the controlled scheduler: no synctest.Wait by the harness
	wg      sync.WaitGroup
}

func newWorld(role string, sched bool, relayNoPeers bool) *world {
	w := &world{role: role, streams: map[string]*fstream{}, names: map[uint32]string{}, sched: sched}
	w.mem = &fakeMembership{m: initialMembers()}
	deps := pubsub.Deps{
		Membership: w.mem,
		Config: pubsub.Config{
			MaxPatternsPerSpace:  capPerSpace,
			MaxPatternsPerStream: capPerStream,
			PublishRps:           1e9,
			PublishBurst:         1 << 30,
			MaxTimestampSkew:     skew,
			DialQueueWorkers:     1,
			DialQueueSize:        64,
			WriteQueueSize:       64,
			DispatchQueueSize:    64,
			DedupSize:            256,
		},
	}
	if role == "node" {
		w.relay = &fakeRelay{noPeers: relayNoPeers}
		deps.Relay = w.relay
	} else {
		deps.Peers = fakePeers{}
	}
	w.svc = pubsub.New(deps)
	a := new(app.App)
	a.Register(accounttest.NewWithAcc(acct("S").Keys))
	if err := w.svc.Init(a); err != nil {
		panic(err)
	}
	if err := w.svc.Run(context.Background()); err != nil {
		panic(err)
	}
	w.pool = pubsub.VerifPool(w.svc)
	w.t0 = time.Now()
	for _, sp := range streamSpecs {
		w.open(sp.Name)
	}
	return w
}

func (w *world) wait() {
	if !w.sched {
		synctest.Wait()
	}
}

// open registers a fresh incarnation of the named stream with the service.
func (w *world) open(name string) {
	fs := newFstream(specOf(name))
	w.streams[name] = fs
	if w.sched {
		// controller goroutine: locks are taken directly; the pool spawns the read and write loops
		if err := w.pool.AddStream(fs, 64); err != nil {
			panic(err)
		}
	} else {
		w.wg.Add(1)
		go func() {
			defer w.wg.Done()
			_ = w.svc.HandleStream(fs)
		}()
		synctest.Wait()
	}
	infos, _, _, _ := streampool.VerifDump(w.pool)
	for _, si := range infos {
		if _, known := w.names[si.Id]; !known {
			w.names[si.Id] = name
			fs.id = si.Id
		}
	}
	if fs.id == 0 {
		panic("stream " + name + " was not registered by the pool")
	}
}

func (w *world) isOpen(name string) bool {
	fs := w.streams[name]
	return fs != nil && !fs.closed() && fs.ctx.Err() == nil
}

func (w *world) send(name string, m *pubsubproto.PubSubMessage) {
	fs := w.streams[name]
	select {
	case fs.in <- m:
	case <-fs.closeCh:
	}
}

func (w *world) handler(id int) pubsub.Handler {
	return func(spaceId, topic string, identity crypto.PubKey, payload []byte) {
		w.mu.Lock()
		w.hlog = append(w.hlog, hcall{Sub: id, Space: spaceId, Topic: unexpand(topic), Account: acctNameOf(identity.Account()), Payload: string(payload)})
		w.mu.Unlock()
	}
}

func (w *world) takeHandlerCalls() []hcall {
	w.mu.Lock()
	defer w.mu.Unlock()
	out := w.hlog
	w.hlog = nil
	return out
}

// shutdown ends every goroutine of the world so that the bubble can be left.
func (w *world) shutdown() {
	for _, fs := range w.streams {
		_ = fs.Close()
		fs.cancel()
	}
	w.wait()
	_ = w.svc.Close(context.Background())
	w.wait()
	w.wg.Wait()
}

// ---- publish construction ---------------------------------------------------------------------------

// pubSpec describes one Publish frame put on a stream by the harness.
type pubSpec struct {
	Stream  string `json:"stream"`
	Space   string `json:"space"`
	Topic   string `json:"topic"`            // template ($A = account id of A)
	Signer  string `json:"signer,omitempty"` // account whose identity the message carries and whose key signs it; "" = no identity
	Relayed bool   `json:"relayed,omitempty"`
	Id      string `json:"id"`            // msgId label
	Ts      string `json:"ts,omitempty"`  // "" / "t0" = world start, "now", "old" = now-6m, "future" = now+6m
	Mut     string `json:"mut,omitempty"` // post-signing tampering: badsig topic payload ts space garbage-id strip-id
	MutArg  string `json:"mut_arg,omitempty"`
}

func (p pubSpec) String() string {
	s := fmt.Sprintf("pub(%s,%s,%q,by=%s,id=%s", p.Stream, p.Space, p.Topic, orDash(p.Signer), p.Id)
	if p.Relayed {
		s += ",relayed"
	}
	if p.Ts != "" {
		s += ",ts=" + p.Ts
	}
	if p.Mut != "" {
		s += ",mut=" + p.Mut
	}
	return s + ")"
}

func orDash(s string) string {
	if s == "" {
		return "-"
	}
	return s
}

func payloadOf(ps pubSpec) string {
	if ps.Mut == "payload" {
		return "payload:" + ps.Id + "!"
	}
	return "payload:" + ps.Id
}

func (w *world) tsOf(mode string) int64 {
	switch mode {
	case "", "t0":
		return w.t0.UnixMilli()
	case "now":
		return time.Now().UnixMilli()
	case "old":
		return time.Now().Add(-tickStep).UnixMilli()
	case "future":
		return time.Now().Add(tickStep).UnixMilli()
	}
	panic("ts mode " + mode)
}

func (w *world) buildPublish(ps pubSpec) *pubsubproto.PubSubMessage {
	p := &pubsubproto.Publish{
		SpaceId:        ps.Space,
		Topic:          expand(ps.Topic),
		MsgId:          msgId(ps.Id),
		Payload:        []byte("payload:" + ps.Id),
		TimestampMilli: w.tsOf(ps.Ts),
	}
	if ps.Signer != "" {
		if err := pubsub.VerifSignPublish(acct(ps.Signer).Keys.SignKey, p); err != nil {
			panic(err)
		}
	}
	switch ps.Mut {
	case "":
	case "badsig":
		p.Signature = append([]byte{}, p.Signature...)
		p.Signature[len(p.Signature)/2] ^= 0x40
	case "topic":
		p.Topic = expand(ps.MutArg)
	case "payload":
		p.Payload = append(append([]byte{}, p.Payload...), '!')
	case "ts":
		p.TimestampMilli++
	case "space":
		p.SpaceId = ps.MutArg
	case "msgid":
		p.MsgId = msgId(ps.Id + "'")
	case "garbage-id":
		p.Identity = []byte{1, 2, 3}
	case "strip-id":
		p.Identity = nil
	case "swap-id":
		p.Identity = acct(ps.MutArg).Identity
	default:
		panic("mut " + ps.Mut)
	}
	p.Relayed = ps.Relayed
	return &pubsubproto.PubSubMessage{Content: &pubsubproto.PubSubMessage_Publish{Publish: p}}
}

// ---- observation -----------------------------------------------------------------------------------

// obs is what the fake streams and handlers saw since the previous event.
type obs struct {
	pubs     map[string][]*pubsubproto.Publish // stream name -> Publish frames written to it
	statuses map[string][]*pubsubproto.Status
	others   map[string]int
	handlers []hcall
	forwards int // OtherResponsiblePeers calls
}

func (w *world) observe() obs {
	o := obs{pubs: map[string][]*pubsubproto.Publish{}, statuses: map[string][]*pubsubproto.Status{}, others: map[string]int{}}
	for name, fs := range w.streams {
		for _, m := range fs.take() {
			switch {
			case m.GetPublish() != nil:
				o.pubs[name] = append(o.pubs[name], m.GetPublish())
			case m.GetStatus() != nil:
				o.statuses[name] = append(o.statuses[name], m.GetStatus())
			default:
				o.others[name]++
			}
		}
	}
	o.handlers = w.takeHandlerCalls()
	if w.relay != nil {
		o.forwards = w.relay.takeForwards()
	}
	return o
}

// ---- real state dump -------------------------------------------------------------------------------

type realState struct {
	st       pubsub.VerifState
	tags     map[string][]string // stream name -> sorted tags (templates)
	byTag    map[string][]string // tag -> stream names
	dangling []string
}

func (w *world) nameOf(id uint32) string {
	if n, ok := w.names[id]; ok {
		// an id of an earlier incarnation of the stream is reported as such
		if fs := w.streams[n]; fs != nil && fs.id == id {
			return n
		}
		return fmt.Sprintf("%s(old#%d)", n, id)
	}
	return fmt.Sprintf("?#%d", id)
}

func (w *world) dump() realState {
	rs := realState{st: pubsub.VerifDumpState(w.svc), tags: map[string][]string{}, byTag: map[string][]string{}}
	infos, _, byTag, _ := streampool.VerifDump(w.pool)
	live := map[uint32]bool{}
	for _, si := range infos {
		live[si.Id] = true
		n := w.nameOf(si.Id)
		l := []string{}
		for _, t := range si.Tags {
			l = append(l, unexpand(t))
		}
		sort.Strings(l)
		rs.tags[n] = l
	}
	for tag, ids := range byTag {
		for _, id := range ids {
			rs.byTag[unexpand(tag)] = append(rs.byTag[unexpand(tag)], w.nameOf(id))
			if !live[id] {
				rs.dangling = append(rs.dangling, fmt.Sprintf("%s->#%d", unexpand(tag), id))
			}
		}
		sort.Strings(rs.byTag[unexpand(tag)])
	}
	sort.Strings(rs.dangling)
	return rs
}

func sortedKeys[V any](m map[string]V) []string {
	out := make([]string, 0, len(m))
	for k := range m {
		out = append(out, k)
	}
	sort.Strings(out)
	return out
}

func trieStr(ti pubsub.VerifTrieInfo) string {
	var l []string
	for p, n := range ti.Refs {
		l = append(l, fmt.Sprintf("%s=%d", unexpand(p), n))
	}
	sort.Strings(l)
	return fmt.Sprintf("{len=%d nodes=%d %s}", ti.Len, ti.Nodes, strings.Join(l, ","))
}

// key renders the complete bookkeeping canonically (stream ids replaced by names, account ids by names).
func (rs realState) key(w *world) string {
	var sb strings.Builder
	sb.WriteString("remote:")
	for _, sp := range sortedKeys(rs.st.Remote) {
		fmt.Fprintf(&sb, "%s%s;", sp, trieStr(rs.st.Remote[sp]))
	}
	sb.WriteString(" streams:")
	var recs []string
	for id, rec := range rs.st.Streams {
		var l []string
		for _, sp := range sortedKeys(rec.BySpace) {
			l = append(l, sp+"="+unexpand(strings.Join(rec.BySpace[sp], ",")))
		}
		recs = append(recs, fmt.Sprintf("%s[%s total=%d %s]", w.nameOf(id), acctNameOf(rec.Account), rec.Total, strings.Join(l, " ")))
	}
	sort.Strings(recs)
	sb.WriteString(strings.Join(recs, ";"))
	sb.WriteString(" tags:")
	for _, n := range sortedKeys(rs.tags) {
		fmt.Fprintf(&sb, "%s=%s;", n, strings.Join(rs.tags[n], ","))
	}
	sb.WriteString(" local:")
	for _, sp := range sortedKeys(rs.st.LocalTrie) {
		fmt.Fprintf(&sb, "%s%s;", sp, trieStr(rs.st.LocalTrie[sp]))
	}
	for _, sp := range sortedKeys(rs.st.LocalSubs) {
		var l []string
		for p, n := range rs.st.LocalSubs[sp] {
			l = append(l, fmt.Sprintf("%s=%d", unexpand(p), n))
		}
		sort.Strings(l)
		fmt.Fprintf(&sb, "%s<%s>;", sp, strings.Join(l, ","))
	}
	for _, sp := range sortedKeys(rs.st.LocalTopic) {
		fmt.Fprintf(&sb, "%s#%d;", sp, rs.st.LocalTopic[sp])
	}
	return sb.String()
}
