package c17

// Part (c): two concurrent operations on the node-role service under the controlled scheduler (engine C). Every
// mutex acquisition of commonspace/pubsub and net/streampool, every stream.closed operation and every start of an
// operation is a scheduling point; all schedules within the preemption bound are enumerated.

import (
	"bytes"
	"context"
	"fmt"
	"sort"
	"strings"
	"testing"

	"storj.io/drpc"

	"github.com/anyproto/any-sync/commonspace/pubsub"
	"github.com/anyproto/any-sync/commonspace/pubsub/pubsubproto"
	"github.com/anyproto/any-sync/net/streampool"

	"verif/lib/sched"
	"verif/lib/vk"
)

func pubsubValidT(s string) bool { return pubsub.ValidateTopic(s) == nil }
func pubsubValidP(s string) bool { return pubsub.ValidatePattern(s) == nil }

type raceScenario struct {
	Name string
	Pre  []event // sequential prefix, applied before the race
	Ops  []event // concurrent operations
}

func raceScenarios() []raceScenario {
	pb := pub(pubSpec{Stream: "s2", Signer: "B", Topic: "a", Space: "X", Id: "r1", Ts: "now"})
	scs := []raceScenario{
		{"close||subscribe(same stream)", nil, []event{{K: "closew", S: "s0"}, sub("s0", "X", "a")}},
		{"close||subscribe(same stream, has interest)", []event{sub("s0", "X", "*"), sub("s1", "X", "a")}, []event{{K: "closew", S: "s0"}, sub("s0", "X", "a")}},
		{"close||CloseSpace", []event{sub("s0", "X", "a"), sub("s2", "X", "a"), sub("s0", "Y", "a")}, []event{{K: "close", S: "s0"}, {K: "closespace", Sp: "X"}}},
		{"EvictMember||subscribe", []event{sub("s1", "X", "a")}, []event{{K: "evict", Sp: "X", A: "A"}, sub("s0", "X", "a", "*")}},
		{"unsubscribe||publish", []event{sub("s0", "X", "a"), sub("s1", "X", "a")}, []event{unsub("s0", "X", "a"), pb}},
	}
	// further pairs (cheap: a few hundred schedules each)
	{
		scs = append(scs,
			raceScenario{"close(writer)||CloseSpace", []event{sub("s0", "X", "a"), sub("s2", "X", "a")}, []event{{K: "closew", S: "s0"}, {K: "closespace", Sp: "X"}}},
			raceScenario{"close||publish", []event{sub("s0", "X", "a"), sub("s1", "X", "a")}, []event{{K: "closew", S: "s0"}, pb}},
			raceScenario{"subscribe||publish", []event{sub("s1", "X", "a")}, []event{sub("s0", "X", "*"), pb}},
			raceScenario{"CloseSpace||publish", []event{sub("s0", "X", "a"), sub("s1", "X", "*")}, []event{{K: "closespace", Sp: "X"}, pb}},
			raceScenario{"EvictMember||publish", []event{sub("s0", "X", "a"), sub("s2", "X", "a")}, []event{{K: "evict", Sp: "X", A: "A"}, pb}},
			raceScenario{"close||unsubscribe(same stream)", []event{sub("s0", "X", "a", "*"), sub("s1", "X", "a")}, []event{{K: "closew", S: "s0"}, unsub("s0", "X")}},
			raceScenario{"close||unsubscribe(same stream, partial)", []event{sub("s0", "X", "a", "*"), sub("s1", "X", "a")}, []event{{K: "closew", S: "s0"}, unsub("s0", "X", "a")}},
			raceScenario{"close||EvictMember", []event{sub("s0", "X", "a"), sub("s1", "X", "a")}, []event{{K: "closew", S: "s0"}, {K: "evict", Sp: "X", A: "A"}}},
			raceScenario{"RevalidateMembers||subscribe", []event{sub("s1", "X", "a"), sub("s2", "X", "a"), {K: "mem-", Sp: "X", A: "B"}}, []event{{K: "reval", Sp: "X"}, sub("s0", "X", "a")}},
			raceScenario{"subscribe||subscribe(two streams, one pattern)", nil, []event{sub("s0", "X", "a"), sub("s1", "X", "a")}},
			raceScenario{"unsubscribe||CloseSpace", []event{sub("s0", "X", "a", "*"), sub("s1", "X", "a")}, []event{unsub("s0", "X", "a"), {K: "closespace", Sp: "X"}}},
			raceScenario{"close||close(siblings)", []event{sub("s0", "X", "a"), sub("s1", "X", "a")}, []event{{K: "closew", S: "s0"}, {K: "close", S: "s1"}}},
		)
	}
	return scs
}

func scenarioByName(name string) (raceScenario, bool) {
	for _, sc := range raceScenarios() {
		if sc.Name == name {
			return sc, true
		}
	}
	return raceScenario{}, false
}

type raceData struct {
	w        *world
	findings []finding
	outcome  string
	lin      string
}

type msgHandler interface {
	HandleMessage(ctx context.Context, peerId string, msg drpc.Message) error
}

// direct delivers a frame to the service on the calling (controller) goroutine, as the stream's read loop would.
func (w *world) direct(stream string, m *pubsubproto.PubSubMessage) {
	fs := w.streams[stream]
	ctx := streampool.VerifStreamCtx(fs.ctx, fs.id, fs.spec.PeerId)
	_ = w.svc.(msgHandler).HandleMessage(ctx, fs.spec.PeerId, clone(m))
}

func frameOfEvent(w *world, e event) *pubsubproto.PubSubMessage {
	switch e.K {
	case "sub":
		return &pubsubproto.PubSubMessage{Content: &pubsubproto.PubSubMessage_Subscribe{Subscribe: &pubsubproto.Subscribe{SpaceId: e.Sp, Topics: expandAll(e.L)}}}
	case "unsub":
		return &pubsubproto.PubSubMessage{Content: &pubsubproto.PubSubMessage_Unsubscribe{Unsubscribe: &pubsubproto.Unsubscribe{SpaceId: e.Sp, Topics: expandAll(e.L)}}}
	case "pub":
		return w.buildPublish(*e.P)
	}
	return nil
}

func (sc raceScenario) sched() sched.Scenario {
	return sched.Scenario{Name: sc.Name, Setup: func(x *sched.Exec) {
		w := newWorld("node", true, true)
		d := &raceData{w: w}
		x.Data = d
		x.BackgroundInMainPhase = true
		for _, e := range sc.Pre {
			if f := frameOfEvent(w, e); f != nil {
				w.direct(e.S+streamOfPub(e), f)
			} else {
				w.apply(e)
			}
		}
		for i, e := range sc.Ops {
			e := e
			x.Go(fmt.Sprintf("op%d:%s", i, e.K), func() { w.apply(e) })
		}
		x.AtQuiescence = func() { d.judge(sc) }
		x.Cleanup = func() { w.shutdown() }
	}}
}

func streamOfPub(e event) string {
	if e.K == "pub" {
		return e.P.Stream
	}
	return ""
}

// judge runs at quiescence of the main phase (every operation returned, no goroutine of the code can move).
func (d *raceData) judge(sc raceScenario) {
	w := d.w
	o := w.observe()
	rs := w.dump()
	// what the publish (if any) reached
	var pubEv *event
	for i := range sc.Ops {
		if sc.Ops[i].K == "pub" {
			pubEv = &sc.Ops[i]
		}
	}
	got := map[string]int{}
	if pubEv != nil {
		id := msgId(pubEv.P.Id)
		for name, frames := range o.pubs {
			for _, f := range frames {
				if bytes.Equal(f.MsgId, id) {
					got[name]++
				}
			}
		}
	}
	gotL := sortedKeys(got)
	for _, n := range gotL {
		if got[n] > 1 {
			d.findings = append(d.findings, finding{"race:duplicate-copy", fmt.Sprintf("stream %s received %d copies", n, got[n])})
		}
	}
	// Some order of the two operations must explain the final bookkeeping and the delivery. When the operation
	// racing with a publish touches several streams (CloseSpace, EvictMember, RevalidateMembers) it is not one atomic
	// step for the fan-out; the property speaks per subscriber stream, so the delivery is then judged per stream:
	// each stream got the message iff it matched before or after the other operation.
	multi := false
	for _, e := range sc.Ops {
		if e.K == "closespace" || e.K == "evict" || e.K == "reval" {
			multi = true
		}
	}
	var why []string
	wants := [][]string{}
	stateOK := ""
	for _, order := range permutations(len(sc.Ops)) {
		m := newModel("node")
		for _, e := range sc.Pre {
			m.apply(e)
		}
		var want []string
		for _, i := range order {
			e := sc.Ops[i]
			if !m.enabled(e) {
				continue // a frame for a stream that is already gone is never read
			}
			if ex := m.apply(e); ex != nil {
				want = ex.streams
			}
		}
		wants = append(wants, want)
		fs := compareState(w, m, rs)
		names := make([]string, len(order))
		for k, i := range order {
			names[k] = sc.Ops[i].K
		}
		lin := strings.Join(names, "<")
		if len(fs) == 0 && stateOK == "" {
			stateOK = lin
		}
		if len(fs) == 0 && (pubEv == nil || strings.Join(gotL, ",") == strings.Join(want, ",")) {
			d.lin = lin
			break
		}
		if len(fs) > 0 {
			why = append(why, fmt.Sprintf("[%s: %s: %s]", lin, fs[0].key, fs[0].what))
		} else {
			why = append(why, fmt.Sprintf("[%s: delivered to %v, that order delivers to %v]", lin, gotL, want))
		}
	}
	if d.lin == "" && stateOK != "" && pubEv != nil && multi {
		ok := true
		for _, sp := range streamSpecs {
			g := contains(gotL, sp.Name)
			explained := false
			for _, wl := range wants {
				if contains(wl, sp.Name) == g {
					explained = true
				}
			}
			ok = ok && explained
		}
		if ok {
			d.lin = "per-stream"
		}
	}
	if d.lin == "" {
		key := "race:not-linearizable"
		all := strings.Join(why, " ")
		for _, k := range []string{"closed-stream-keeps-interest", "views-disagree:tags-vs-record", "views-disagree:trie-vs-records", "pool-tag-index-dangling"} {
			if strings.Count(all, k) >= len(why) && len(why) > 0 {
				key = "race:" + k
				break
			}
		}
		d.findings = append(d.findings, finding{key, "no order of the operations explains the outcome: " + all})
	}
	d.outcome = fmt.Sprintf("%s delivered=%v lin=%s", rs.key(w), gotL, d.lin)
}

func permutations(n int) [][]int {
	if n == 2 {
		return [][]int{{0, 1}, {1, 0}}
	}
	var out [][]int
	var rec func(cur []int, used []bool)
	rec = func(cur []int, used []bool) {
		if len(cur) == n {
			out = append(out, append([]int{}, cur...))
			return
		}
		for i := 0; i < n; i++ {
			if !used[i] {
				used[i] = true
				rec(append(cur, i), used)
				used[i] = false
			}
		}
	}
	rec(nil, make([]bool, n))
	return out
}

func judgeRace(c *vk.Ctx, sc raceScenario, r *sched.Result) {
	c.Count("executions", 1)
	c.Count("transitions", int64(len(r.Steps)))
	c.Count("evaluations", 1)
	d, _ := r.Data.(*raceData)
	rep := func() any {
		return map[string]any{"part": "race", "scenario": sc.Name, "choices": r.Choices, "trace": r.Trace}
	}
	for _, p := range r.Panics {
		first := strings.SplitN(p, "\n", 2)[0]
		if len(first) > 100 {
			first = first[:100]
		}
		c.Violation("race-panic:"+first+"@"+vk.PanicSite(p), fmt.Sprintf("scenario %s: %s", sc.Name, first), rep())
	}
	if r.Deadlock && len(r.Panics) == 0 {
		c.Violation("race-deadlock", fmt.Sprintf("scenario %s: operations cannot finish: %v (trace %v)", sc.Name, r.Unfinished, r.Trace), rep())
	}
	if r.Horizon {
		c.Violation("race-livelock", fmt.Sprintf("scenario %s: step horizon reached: %v", sc.Name, r.Unfinished), rep())
	}
	if r.Stuck || r.Diverged != "" || d == nil {
		return
	}
	for _, f := range d.findings {
		c.Violation(f.key, fmt.Sprintf("scenario %s, schedule %v: %s", sc.Name, r.Trace, f.what), rep())
	}
	if c.Distinct("states", "race:"+sc.Name+":"+d.outcome) {
		c.Distinct("distinct", "race:"+sc.Name+":"+d.outcome)
	}
}

func partRaces(t *testing.T, c *vk.Ctx, shard, n int) {
	pb := vk.Pick(c, 2, 4)
	c.Bound("c_preemption_bound", pb)
	scs := raceScenarios()
	c.Bound("c_scenarios", len(scs))
	for i, sc := range scs {
		if n > 1 && i%n != shard {
			continue
		}
		if c.TimeUp() {
			c.NotExhaustive("deadline before race scenario " + sc.Name)
			continue
		}
		sc := sc
		ex := &sched.Explorer{T: t, PreemptBound: pb, DevBound: 0, Stop: c.TimeUp, Horizon: 500}
		ex.OnStuck = func(r *sched.Result) {
			c.Note("race scenario %s stuck: deadlock=%v horizon=%v unfinished=%v", sc.Name, r.Deadlock, r.Horizon, r.Unfinished)
			c.FlushAndExit()
		}
		outcomes := map[string]int{}
		ex.OnExec = func(r *sched.Result) {
			judgeRace(c, sc, r)
			if d, ok := r.Data.(*raceData); ok {
				outcomes[d.lin]++
			}
		}
		r1, dv := ex.CheckReplayable(sc.sched())
		if dv != "" {
			c.Broken("race scenario %s: default schedule is not deterministic: %s", sc.Name, dv)
			continue
		}
		ex.Explore(sc.sched())
		if ex.Capped {
			c.NotExhaustive(fmt.Sprintf("deadline inside race scenario %s after %d executions", sc.Name, ex.Executions))
		}
		if ex.Skipped > 0 {
			c.NotExhaustive(fmt.Sprintf("race scenario %s: %d subtrees skipped (divergence: %s)", sc.Name, ex.Skipped, ex.LastDivergence))
		}
		var ol []string
		for k, v := range outcomes {
			ol = append(ol, fmt.Sprintf("%s:%d", k, v))
		}
		sort.Strings(ol)
		c.Note("race %q: %d schedules (max %d steps, %d retries), explained by orders %v", sc.Name, ex.Executions, ex.MaxSteps, ex.Retries, ol)
		c.Sample(map[string]any{"race": sc.Name, "schedules": ex.Executions, "default_schedule": r1.Trace, "orders": ol})
		if c.NViolations() == 0 && strings.HasSuffix(sc.Name, "||publish") && !ex.Capped {
			c.Require(len(outcomes) >= 2, "vacuity: race scenario %s: every schedule is explained by one single order %v", sc.Name, ol)
		}
	}
}

func replayRace(t *testing.T, c *vk.Ctx, name string, choices []int) {
	sc, ok := scenarioByName(name)
	if !ok {
		c.Broken("replay: unknown race scenario %q", name)
		return
	}
	ex := &sched.Explorer{T: t, Horizon: 500}
	called := false
	ex.OnStuck = func(r *sched.Result) { c.FlushAndExit() }
	ex.OnExec = func(res *sched.Result) { called = true; judgeRace(c, sc, res) }
	res := ex.Run(sc.sched(), choices)
	if !called {
		judgeRace(c, sc, res)
	}
	fmt.Println("trace:", res.Trace)
	if d, ok := res.Data.(*raceData); ok {
		fmt.Println("outcome:", d.outcome)
	}
}
