package c17

// Part (b): explicit-state BFS over event histories of the real service ("replay + 1": every state is reached
// by replaying its history on a fresh service inside its own synctest bubble).

import (
	"bytes"
	"context"
	"encoding/json"
	"fmt"
	"os"
	"path/filepath"
	"sort"
	"strings"
	"sync"
	"testing"
	"testing/synctest"
	"time"

	"github.com/anyproto/any-sync/commonspace/pubsub"
	"github.com/anyproto/any-sync/commonspace/pubsub/pubsubproto"

	"verif/lib/vk"
)

type finding struct{ key, what string }

// ---- applying an event to the real service -----------------------------------------------------------

func (w *world) apply(e event) {
	switch e.K {
	case "sub":
		w.send(e.S, &pubsubproto.PubSubMessage{Content: &pubsubproto.PubSubMessage_Subscribe{Subscribe: &pubsubproto.Subscribe{SpaceId: e.Sp, Topics: expandAll(e.L)}}})
	case "unsub":
		w.send(e.S, &pubsubproto.PubSubMessage{Content: &pubsubproto.PubSubMessage_Unsubscribe{Unsubscribe: &pubsubproto.Unsubscribe{SpaceId: e.Sp, Topics: expandAll(e.L)}}})
	case "pub":
		w.send(e.P.Stream, w.buildPublish(*e.P))
	case "close":
		_ = w.streams[e.S].Close() // the peer goes away: MsgRecv fails
	case "closew":
		w.streams[e.S].cancel() // the connection context ends: the write loop closes the stream
	case "open":
		w.open(e.S)
	case "mem-":
		w.mem.set(e.Sp, e.A, false)
	case "mem+":
		w.mem.set(e.Sp, e.A, true)
	case "evict":
		w.svc.EvictMember(e.Sp, acct(e.A).Pub)
	case "reval":
		w.svc.RevalidateMembers(e.Sp, func(account string) bool { return w.mem.is(e.Sp, acctNameOf(account)) })
	case "closespace":
		w.svc.CloseSpace(e.Sp)
		// the handles of that space are stale now; a host may still call them later ("lunsub-stale")
		var keep []*lsub
		for _, ls := range w.subs {
			if ls.space == e.Sp {
				w.stale = append(w.stale, ls)
			} else {
				keep = append(keep, ls)
			}
		}
		w.subs = keep
	case "lunsub-stale":
		w.stale[0].unsub()
		w.stale = w.stale[1:]
	case "tick":
		time.Sleep(tickStep)
	case "lsub":
		id := w.nextSub
		w.nextSub++
		unsub, err := w.svc.Subscribe(e.Sp, expand(e.L[0]), w.handler(id))
		if err == nil {
			w.subs = append(w.subs, &lsub{id: id, space: e.Sp, pattern: e.L[0], unsub: unsub})
		}
	case "lunsub":
		w.subs[e.N].unsub()
		w.subs = append(append([]*lsub{}, w.subs[:e.N]...), w.subs[e.N+1:]...)
	case "lpub":
		_ = w.svc.Publish(context.Background(), e.Sp, expand(e.L[0]), []byte("own payload"))
	case "echo":
		w.send("n", clone(w.own))
	default:
		panic("unknown event kind " + e.K)
	}
	w.wait()
}

// ---- vacuity flags -----------------------------------------------------------------------------------

type vacuity struct {
	mu sync.Mutex
	m  map[string]int
}

func (v *vacuity) hit(k string) {
	v.mu.Lock()
	v.m[k]++
	v.mu.Unlock()
}

func (v *vacuity) get(k string) int {
	v.mu.Lock()
	defer v.mu.Unlock()
	return v.m[k]
}

// ---- judging one step --------------------------------------------------------------------------------

type stepper struct {
	c    *vk.Ctx
	vac  *vacuity
	role string
}

// step applies one event to world and model and returns what disagrees with the property.
func (s *stepper) step(w *world, m *model, ep *event, count bool) (out []finding) {
	add := func(k, f string, a ...any) { out = append(out, finding{k, fmt.Sprintf(f, a...)}) }
	if ep.K == "lsub" {
		// the service decides (local cap); the decision is recorded in the event and must be stable across replays
		before := len(w.subs)
		w.apply(*ep)
		acc := len(w.subs) > before
		if ep.Ok != nil && *ep.Ok != acc {
			add("harness:lsub-not-reproducible", "%s was accepted=%v when first executed, now %v", *ep, *ep.Ok, acc)
		}
		if acc && !refValidPattern(expand(ep.L[0])) {
			add("local-subscribe-accepts-invalid-pattern", "%s was accepted", *ep)
		}
		ep.Ok = &acc
		m.apply(*ep)
		w.observe()
		s.c.Count("transitions", 1)
		return append(out, compareState(w, m, w.dump())...)
	}
	e := *ep
	var wouldMatch bool
	if e.K == "pub" && s.role == "node" {
		sp, tp, _, _, _ := frameOf(*e.P)
		wouldMatch = len(m.matching(sp, expand(tp))) > 0
	}
	ex := m.apply(e)
	w.apply(e)
	o := w.observe()
	s.c.Count("transitions", 1)
	if e.K == "lpub" {
		for _, f := range o.pubs["n"] {
			if bytes.Equal(f.Identity, acct("S").Identity) {
				w.own = &pubsubproto.PubSubMessage{Content: &pubsubproto.PubSubMessage_Publish{Publish: f}}
			}
		}
		if (w.own != nil) != (m.own > 0) {
			add("harness:own-frame", "own publish frame captured=%v, the model expects %v", w.own != nil, m.own > 0)
		}
	}
	if ex != nil {
		if count {
			s.c.Count("evaluations", 1)
		}
		var id []byte
		if e.K == "echo" {
			id = w.own.GetPublish().MsgId
		} else {
			id = msgId(ex.id)
		}
		relayedIn := e.K == "pub" && e.P.Relayed
		counts := map[string]int{}
		fwdFrames := 0
		for name, frames := range o.pubs {
			for _, f := range frames {
				if !bytes.Equal(f.MsgId, id) {
					add("stray-publish-frame", "%s: stream %s received a Publish (topic %q) that is not the message just published", e, name, unexpand(f.Topic))
					continue
				}
				if specOf(name).Node && f.Relayed && !relayedIn {
					fwdFrames++
					continue
				}
				counts[name]++
				if e.K == "pub" && (unexpand(f.Topic) != ex.topic || f.SpaceId != ex.space || string(f.Payload) != payloadOf(*e.P)) {
					add("copy-altered", "%s: the copy written to %s differs from the message (topic %q space %q)", e, name, unexpand(f.Topic), f.SpaceId)
				}
			}
		}
		got := sortedKeys(counts)
		if ex.judgeFan {
			want := ex.streams
			if strings.Join(got, ",") != strings.Join(want, ",") {
				switch {
				case strings.HasPrefix(ex.reason, "reject:"):
					add("delivered-despite:"+strings.TrimPrefix(ex.reason, "reject:"), "%s must reach nobody (%s) but was written to %v", e, ex.reason, got)
				case len(minus(got, want)) > 0:
					add("extra-delivery:"+ex.reason, "%s: written to %v, the streams with a registered matching pattern are %v (registered: %s)", e, got, want, m.regStr())
				default:
					add("missing-delivery:"+ex.reason, "%s: written to %v, the streams with a registered matching pattern are %v (registered: %s)", e, got, want, m.regStr())
				}
			} else {
				switch {
				case ex.reason == "ok" && len(want) >= 2:
					s.vac.hit("delivered-to-2")
				case ex.reason == "relayed-ok" && len(want) >= 1 && o.forwards == 0 && fwdFrames == 0:
					s.vac.hit("relayed-delivered-not-forwarded")
				case ex.sole != "" && (wouldMatch || ex.sole == "invalid-topic"):
					s.vac.hit("node-reject:" + ex.sole)
				}
				if ex.reason == "ok" && len(want) >= 1 && contains(want, e.P.Stream) {
					s.vac.hit("echo-to-publisher")
				}
				s.c.Distinct("distinct", fmt.Sprintf("node:%s:%v", ex.reason, want))
			}
			for _, name := range got {
				if counts[name] > 1 {
					add("duplicate-copy", "%s: stream %s received %d copies", e, name, counts[name])
				}
			}
		}
		if ex.noForward && (o.forwards > 0 || fwdFrames > 0 || (s.role == "client" && len(got) > 0)) {
			switch {
			case s.role == "client":
				add("client-forwarded-relayed", "%s: a client-role service wrote the relayed message to %v", e, got)
			case relayedIn:
				add("relayed-message-forwarded", "%s: the message arrived as relayed and was handed to other nodes again (%d peer lookups, %d frames)", e, o.forwards, fwdFrames)
			default:
				add("rejected-message-forwarded", "%s (%s) was handed to other nodes (%d peer lookups, %d frames)", e, ex.reason, o.forwards, fwdFrames)
			}
		}
		if fwdFrames > 1 {
			add("forwarded-twice", "%s: %d relayed copies written to the node link", e, fwdFrames)
		}
		if ex.judgeH {
			per := map[int]int{}
			for _, h := range o.handlers {
				per[h.Sub]++
				if e.K == "pub" && (h.Topic != ex.topic || h.Space != ex.space || h.Account != ex.identity || h.Payload != payloadOf(*e.P)) {
					add("handler-wrong-content", "%s: handler #%d got (%s,%q,%s,%q)", e, h.Sub, h.Space, h.Topic, h.Account, h.Payload)
				}
			}
			var gotH []int
			for id := range per {
				gotH = append(gotH, id)
			}
			sort.Ints(gotH)
			if fmt.Sprint(gotH) != fmt.Sprint(append([]int{}, ex.handlers...)) {
				if len(ex.handlers) == 0 {
					add("handler-reached:"+strings.TrimPrefix(ex.reason, "reject:"), "%s (%s) reached local handlers %v", e, ex.reason, gotH)
				} else {
					add("handler-missed", "%s is valid, fresh and new: handlers %v must run, ran %v", e, ex.handlers, gotH)
				}
			} else {
				if ex.sole != "" {
					s.vac.hit("client-reject:" + ex.sole)
				}
				if ex.reason == "ok" {
					s.vac.hit("client-delivered")
				}
				s.c.Distinct("distinct", fmt.Sprintf("client:%s:%d", ex.reason, len(ex.handlers)))
			}
			for id, n := range per {
				if n > 1 {
					add("handler-duplicate", "%s: handler #%d ran %d times", e, id, n)
				}
			}
		}
	}
	out = append(out, compareState(w, m, w.dump())...)
	return
}

func minus(a, b []string) (out []string) {
	for _, x := range a {
		if !contains(b, x) {
			out = append(out, x)
		}
	}
	return
}

func contains(l []string, x string) bool {
	for _, y := range l {
		if x == y {
			return true
		}
	}
	return false
}

// compareState: the three views of serving-side interest agree with each other and with the reference.
func compareState(w *world, m *model, rs realState) (out []finding) {
	add := func(k, f string, a ...any) { out = append(out, finding{k, fmt.Sprintf(f, a...)}) }
	if m.role == "client" {
		// the duplicate filter remembers exactly the ids of the messages handed to a handler so far (fewer than
		// DedupSize of them arrive, so nothing may have been evicted): a forgotten id is a replay waiting to be accepted
		for _, l := range clientLabels() {
			if has := pubsub.VerifDedupHas(w.svc, msgId(l)); has != m.seen[l] {
				add("dedup-filter-disagrees", "message id %s: duplicate filter remembers it=%v, the model (delivered before) says %v", l, has, m.seen[l])
			}
		}
	}
	perSpace := map[string]map[string]int{} // space -> pattern -> number of stream records holding it
	for id, rec := range rs.st.Streams {
		name := w.nameOf(id)
		cur := w.streams[name] != nil && w.streams[name].id == id
		var l []string
		total := 0
		var wantTags []string
		for sp, pats := range rec.BySpace {
			for _, p := range pats {
				if perSpace[sp] == nil {
					perSpace[sp] = map[string]int{}
				}
				perSpace[sp][p]++
				total++
				wantTags = append(wantTags, unexpand(pubsub.VerifInterestTag(sp, p)))
			}
			if len(pats) > 0 {
				l = append(l, fmt.Sprintf("%s/%s=%s", name, sp, unexpand(strings.Join(pats, ","))))
			}
		}
		if total != rec.Total {
			add("views-disagree:stream-total", "stream record of %s counts total=%d but lists %d patterns", name, rec.Total, total)
		}
		if !cur || !m.open[name] {
			if total > 0 {
				add("closed-stream-keeps-interest", "stream %s is closed but its record still holds %v", name, l)
			}
			continue
		}
		sort.Strings(wantTags)
		if strings.Join(wantTags, ",") != strings.Join(rs.tags[name], ",") {
			add("views-disagree:tags-vs-record", "stream %s: record %v, pool tags %v", name, wantTags, rs.tags[name])
		}
	}
	for name, tags := range rs.tags {
		if len(tags) == 0 {
			continue
		}
		fs := w.streams[name]
		if fs == nil {
			add("views-disagree:tags-vs-record", "pool stream %s carries tags %v", name, tags)
			continue
		}
		if _, ok := rs.st.Streams[fs.id]; !ok {
			add("views-disagree:tags-vs-record", "stream %s has no interest record but pool tags %v", name, tags)
		}
	}
	for _, d := range rs.dangling {
		add("pool-tag-index-dangling", "the pool's tag index lists a removed stream: %s", d)
	}
	for sp, ti := range rs.st.Remote {
		want := perSpace[sp]
		var a, b []string
		for p, n := range ti.Refs {
			a = append(a, fmt.Sprintf("%s=%d", unexpand(p), n))
		}
		for p, n := range want {
			b = append(b, fmt.Sprintf("%s=%d", unexpand(p), n))
		}
		sort.Strings(a)
		sort.Strings(b)
		if strings.Join(a, ",") != strings.Join(b, ",") {
			add("views-disagree:trie-vs-records", "space %s: trie refcounts %v, stream records give %v", sp, a, b)
		}
		if ti.Len != len(ti.Refs) || ti.Nodes != prefixes(ti.Refs) {
			add("views-disagree:trie-shape", "space %s: trie Len=%d nodes=%d for live patterns %v", sp, ti.Len, ti.Nodes, a)
		}
	}
	for sp, want := range perSpace {
		if _, ok := rs.st.Remote[sp]; !ok && len(want) > 0 {
			add("views-disagree:trie-vs-records", "space %s has no trie but stream records hold %v", sp, want)
		}
	}
	// reference: the registered interest
	var real []string
	for id, rec := range rs.st.Streams {
		name := w.nameOf(id)
		for sp, pats := range rec.BySpace {
			if len(pats) > 0 {
				real = append(real, fmt.Sprintf("%s/%s=%s", name, sp, unexpand(strings.Join(pats, ","))))
			}
		}
	}
	sort.Strings(real)
	if got, want := strings.Join(real, ";"), m.regStr(); got != want && len(out) == 0 {
		add("registered-interest-differs", "the service records [%s], the reference has [%s]", got, want)
	}
	// client side: local subscriptions
	wantLocal := map[string]map[string]int{}
	for _, ls := range m.lsubs {
		if wantLocal[ls.space] == nil {
			wantLocal[ls.space] = map[string]int{}
		}
		wantLocal[ls.space][ls.pattern]++
	}
	var gl, wl []string
	for sp, mm := range rs.st.LocalSubs {
		for p, n := range mm {
			gl = append(gl, fmt.Sprintf("%s/%s=%d", sp, unexpand(p), n))
		}
	}
	for sp, mm := range wantLocal {
		for p, n := range mm {
			wl = append(wl, fmt.Sprintf("%s/%s=%d", sp, p, n))
		}
	}
	sort.Strings(gl)
	sort.Strings(wl)
	if strings.Join(gl, ";") != strings.Join(wl, ";") {
		add("local-subscriptions-differ", "the service holds local handlers [%s], the reference has [%s]", strings.Join(gl, ";"), strings.Join(wl, ";"))
	}
	return
}

// ---- teardown ----------------------------------------------------------------------------------------

type teardown struct {
	Name   string
	Events []event
	// what must be gone afterwards
	Serving bool
	Local   bool
}

func teardowns(m *model) []teardown {
	var openS, allS []string
	for _, sp := range streamSpecs {
		allS = append(allS, sp.Name)
		if m.open[sp.Name] {
			openS = append(openS, sp.Name)
		}
	}
	rev := func(l []event) []event {
		out := make([]event, len(l))
		for i := range l {
			out[len(l)-1-i] = l[i]
		}
		return out
	}
	var closeAll, unsubAll, spaceAll, evictAll, revalAll, lunsubAll, lunsubRev []event
	for _, s := range openS {
		closeAll = append(closeAll, event{K: "close", S: s})
		for _, sp := range spaces {
			unsubAll = append(unsubAll, event{K: "unsub", S: s, Sp: sp})
		}
	}
	for _, sp := range spaces {
		spaceAll = append(spaceAll, event{K: "closespace", Sp: sp})
		for _, a := range []string{"A", "B", "N"} {
			evictAll = append(evictAll, event{K: "evict", Sp: sp, A: a})
		}
		for _, a := range []string{"A", "B", "S"} {
			if m.member[sp][a] {
				revalAll = append(revalAll, event{K: "mem-", Sp: sp, A: a})
			}
		}
	}
	for _, sp := range spaces {
		revalAll = append(revalAll, event{K: "reval", Sp: sp})
	}
	for i := len(m.lsubs) - 1; i >= 0; i-- {
		lunsubAll = append(lunsubAll, event{K: "lunsub", N: i})
		lunsubRev = append(lunsubRev, event{K: "lunsub", N: 0})
	}
	cat := func(ls ...[]event) (out []event) {
		for _, l := range ls {
			out = append(out, l...)
		}
		return
	}
	tds := []teardown{
		{"close-all", closeAll, true, false},
		{"unsubscribe-all", unsubAll, true, false},
		{"closespace-all", spaceAll, true, true},
		{"evict-all", evictAll, true, false},
		{"revalidate-all", revalAll, true, false},
		{"evict,unsubscribe,close", cat(evictAll, unsubAll, closeAll), true, false},
		{"closespace,close", cat(spaceAll, rev(closeAll)), true, true},
		{"close,closespace", cat(rev(closeAll), rev(spaceAll)), true, true},
		{"unsubscribe,closespace,evict", cat(rev(unsubAll), spaceAll, evictAll), true, true},
	}
	if len(m.lsubs) > 0 {
		tds = append(tds, teardown{"local-unsubscribe", lunsubAll, false, true}, teardown{"local-unsubscribe-fifo,close", cat(lunsubRev, closeAll), true, true})
	}
	return tds
}

// checkEmpty: after a teardown no interest bookkeeping is left.
func checkEmpty(w *world, td teardown, rs realState) (out []finding) {
	add := func(k, f string, a ...any) { out = append(out, finding{k, fmt.Sprintf(f, a...)}) }
	if td.Serving {
		for sp, ti := range rs.st.Remote {
			if len(ti.Refs) > 0 || ti.Len != 0 {
				add("teardown-leak:trie", "after %s the trie of space %s still holds %s", td.Name, sp, trieStr(ti))
			} else {
				add("teardown-residue:empty-space-trie", "after %s the service still keeps an (empty) interest trie for space %s", td.Name, sp)
			}
		}
		for id, rec := range rs.st.Streams {
			n := 0
			for _, p := range rec.BySpace {
				n += len(p)
			}
			if n > 0 || rec.Total != 0 {
				add("teardown-leak:stream-record", "after %s stream %s still has a record with %v (total %d)", td.Name, w.nameOf(id), rec.BySpace, rec.Total)
			} else {
				add("teardown-residue:empty-stream-record", "after %s the service still keeps an (empty) interest record for stream %s: %v", td.Name, w.nameOf(id), rec.BySpace)
			}
		}
		for name, tags := range rs.tags {
			if len(tags) > 0 {
				add("teardown-leak:pool-tags", "after %s stream %s is still tagged %v", td.Name, name, tags)
			}
		}
		for tag, l := range rs.byTag {
			add("teardown-leak:pool-tag-index", "after %s the pool's tag index still lists %s -> %v", td.Name, tag, l)
			// Streams(tag) is the public view of the same index
			if len(w.pool.Streams(expand(tag))) == 0 {
				add("teardown-leak:pool-tag-index", "tag index and Streams(%s) disagree", tag)
			}
		}
	}
	if td.Local {
		for sp, ti := range rs.st.LocalTrie {
			add("teardown-leak:local-trie", "after %s the local trie of space %s remains: %s", td.Name, sp, trieStr(ti))
		}
		for sp, mm := range rs.st.LocalSubs {
			add("teardown-leak:local-subs", "after %s local handlers of space %s remain: %v", td.Name, sp, mm)
		}
		for sp, n := range rs.st.LocalTopic {
			add("teardown-leak:local-topic-count", "after %s the local pattern counter of space %s remains: %d", td.Name, sp, n)
		}
	}
	return
}

// ---- one execution -----------------------------------------------------------------------------------

type runner struct {
	c      *vk.Ctx
	t      *testing.T
	role   string
	vac    *vacuity
	labels []string // msgId labels whose presence in the duplicate filter is part of the canonical state
	gi, gn int      // this process is member gi of a group of gn processes sharing one search
	dir    string   // exchange directory of the group
}

type caseRef struct {
	Part     string  `json:"part"`
	Role     string  `json:"role"`
	History  []event `json:"history"`
	Teardown string  `json:"teardown,omitempty"`
}

// exec replays hist on a fresh service; then (optionally) calls then() inside the bubble with the live world.
func (r *runner) exec(hist []event, countLast bool, then func(w *world, m *model, st *stepper) []finding) (out []finding, failedAt int) {
	failedAt = -1
	r.c.Count("executions", 1)
	synctest.Test(r.t, func(t *testing.T) {
		w := newWorld(r.role, false, false)
		m := newModel(r.role)
		w.observe()
		st := &stepper{c: r.c, vac: r.vac, role: r.role}
		defer w.shutdown()
		for i, e := range hist {
			if !m.enabled(e) {
				out = append(out, finding{"harness:disabled-event", fmt.Sprintf("event %s is not enabled at position %d", e, i)})
				failedAt = i
				return
			}
			fs := st.step(w, m, &hist[i], countLast && i == len(hist)-1)
			if len(fs) > 0 {
				out = append(out, fs...)
				failedAt = i
				return
			}
		}
		if then != nil {
			out = append(out, then(w, m, st)...)
		}
	})
	return
}

func (r *runner) stateKey(w *world, m *model, rs realState) string {
	var sb strings.Builder
	sb.WriteString(r.role)
	sb.WriteString(" | ")
	sb.WriteString(rs.key(w))
	sb.WriteString(" | ")
	sb.WriteString(m.harnessKey())
	sb.WriteString(" seen=")
	for _, l := range r.labels {
		if pubsub.VerifDedupHas(w.svc, msgId(l)) {
			sb.WriteString(l + ",")
		}
	}
	if w.own != nil && pubsub.VerifDedupHas(w.svc, w.own.GetPublish().MsgId) {
		sb.WriteString("own")
	}
	return sb.String()
}

func (r *runner) report(fs []finding, hist []event, td string) {
	for _, f := range fs {
		r.c.Violation(r.role+":"+f.key, fmt.Sprintf("[%s role] after [%s]: %s", r.role, histStr(hist), f.what), caseRef{Part: "service", Role: r.role, History: hist, Teardown: td})
	}
}

type bnode struct {
	H    uint64  `json:"h"`
	Hist []event `json:"hist"`
}

// levelFile is what one process of a group contributes to a BFS level.
type levelFile struct {
	Stop  string  `json:"stop,omitempty"` // non-empty: the search ends after this level (reason)
	Cands []bnode `json:"cands,omitempty"`
}

// exchange publishes this process's contribution for a phase and collects everybody's (a file barrier: the
// processes of a group run the same deterministic loop, so they all arrive here with the same phase name).
func (r *runner) exchange(phase string, mine levelFile) ([]levelFile, bool) {
	all := make([]levelFile, r.gn)
	if r.gn == 1 {
		all[0] = mine
		return all, true
	}
	name := func(i int) string { return filepath.Join(r.dir, fmt.Sprintf("c17-%s-%s-%d.json", r.role, phase, i)) }
	b, err := json.Marshal(mine)
	if err != nil {
		panic(err)
	}
	if err = os.WriteFile(name(r.gi)+".tmp", b, 0o644); err == nil {
		err = os.Rename(name(r.gi)+".tmp", name(r.gi))
	}
	if err != nil {
		r.c.Broken("exchange %s: %v", phase, err)
		return nil, false
	}
	have := make([]bool, r.gn)
	grace := time.Now().Add(20 * time.Second)
	for n := 0; n < r.gn; {
		for i := 0; i < r.gn; i++ {
			if have[i] {
				continue
			}
			if b, err := os.ReadFile(name(i)); err == nil {
				if err = json.Unmarshal(b, &all[i]); err != nil {
					r.c.Broken("exchange %s: %v", phase, err)
					return nil, false
				}
				have[i] = true
				n++
			}
		}
		if n < r.gn {
			if r.c.TimeUp() && time.Now().After(grace) {
				r.c.NotExhaustive(fmt.Sprintf("%s role: a process of the search group did not reach phase %s before the deadline", r.role, phase))
				return nil, false
			}
			time.Sleep(3 * time.Millisecond) // harness coordination only (outside any bubble); no oracle depends on it
		}
	}
	return all, true
}

// bfs explores all histories up to maxDepth over alphabet, deduplicating on the canonical state. The gn processes
// of the group split every level's work (history i goes to process i mod gn) and merge what they found.
func (r *runner) bfs(alphabet []event, probes []event, maxDepth int) (complete bool) {
	visited := map[uint64]bool{}
	violations := 0
	teardownCleaned := 0

	// discover executes a candidate history and returns the hash of the canonical state it reaches
	discover := func(hist []event) (h uint64, ok bool) {
		fs, failedAt := r.exec(hist, true, func(w *world, m *model, st *stepper) []finding {
			h = vk.HashStr(r.stateKey(w, m, w.dump()))
			return nil
		})
		if len(fs) > 0 {
			hh := hist
			if failedAt >= 0 {
				hh = hist[:failedAt+1]
			}
			r.report(fs, hh, "")
			violations++
			return 0, false
		}
		return h, true
	}

	// judge a new state: the probe battery and every teardown order
	judge := func(hist []event, lastLevel bool) {
		var tds []teardown
		var hadInterest bool
		probeFailed := -1
		var probeFindings []finding
		fs, _ := r.exec(hist, false, func(w *world, m *model, st *stepper) []finding {
			key := r.stateKey(w, m, w.dump())
			r.c.Distinct("states", key)
			tds = teardowns(m)
			hadInterest = m.hasInterest()
			if len(hist) <= 2 {
				r.c.Sample(map[string]any{"role": r.role, "history": histStr(hist), "state": key})
			}
			// the probe battery: every publish variant from this state (a longer history, judged event by event)
			for i, p := range probes {
				if !m.enabled(p) {
					continue
				}
				if f := st.step(w, m, &p, true); len(f) > 0 {
					probeFailed, probeFindings = i, f
					break
				}
			}
			return nil
		})
		if len(fs) > 0 {
			return // already reported by the discovery of this history
		}
		if probeFailed >= 0 {
			// report the probe with the shortest history that shows it
			short := append(append([]event{}, hist...), probes[probeFailed])
			if f2, _ := r.exec(short, false, nil); len(f2) > 0 {
				r.report(f2, short, "")
			} else {
				r.report(probeFindings, append(append([]event{}, hist...), probes[:probeFailed+1]...), "")
			}
			violations++
		}
		for ti, td := range tds {
			if r.c.TimeUp() {
				break
			}
			if lastLevel && r.c.Quick() && ti >= 5 && td.Name != "local-unsubscribe" {
				continue // quick tier: the mixed orders are run from every state but those of the deepest level
			}
			full := append(append([]event{}, hist...), td.Events...)
			fs, failedAt := r.exec(full, false, func(w *world, m *model, st *stepper) []finding {
				r.c.Count("evaluations", 1)
				return checkEmpty(w, td, w.dump())
			})
			if len(fs) > 0 {
				h := full
				if failedAt >= 0 {
					h = full[:failedAt+1]
				}
				r.report(fs, h, td.Name)
				// an empty leftover entry is reported but does not end the search: deeper states stay worth exploring
				for _, f := range fs {
					if !strings.HasPrefix(f.key, "teardown-residue:") {
						violations++
						break
					}
				}
			} else if hadInterest {
				teardownCleaned++
			}
		}
	}
	stopReason := func() string {
		switch {
		case r.c.TimeUp():
			return "deadline"
		case violations > 0:
			return "violation"
		}
		return ""
	}
	finish := func(closed bool) {
		r.c.Bound(r.role+"_state_space_closed", closed)
		r.vac.mu.Lock()
		r.vac.m[r.role+":teardowns-clean"] += teardownCleaned
		r.vac.mu.Unlock()
	}

	h0, ok := discover(nil)
	if !ok {
		finish(false)
		return false
	}
	visited[h0] = true
	if r.gi == 0 {
		judge(nil, false)
	}
	frontier := []bnode{{H: h0}}
	for depth := 1; depth <= maxDepth; depth++ {
		if len(frontier) == 0 {
			finish(true)
			return true
		}
		// ---- discovery: my share of frontier x alphabet
		var mine levelFile
		local := map[uint64]bool{}
		j := 0
		for _, nd := range frontier {
			m := newModel(r.role)
			for _, e := range nd.Hist {
				m.apply(e)
			}
			for _, e := range alphabet {
				if !m.enabled(e) {
					continue
				}
				j++
				if (j-1)%r.gn != r.gi || mine.Stop != "" {
					continue
				}
				if r.c.TimeUp() || violations > 20 {
					mine.Stop = stopReason()
					continue
				}
				hist := append(append([]event{}, nd.Hist...), e)
				if h, ok := discover(hist); ok && !visited[h] && !local[h] {
					local[h] = true
					mine.Cands = append(mine.Cands, bnode{H: h, Hist: hist})
				}
			}
		}
		if mine.Stop == "" {
			mine.Stop = stopReason()
		}
		all, ok := r.exchange(fmt.Sprintf("d%d", depth), mine)
		if !ok {
			finish(false)
			return false
		}
		stop := ""
		best := map[uint64]bnode{}
		for _, lf := range all {
			if lf.Stop != "" {
				stop = lf.Stop
			}
			for _, cd := range lf.Cands {
				if old, ok := best[cd.H]; !ok || histStr(cd.Hist) < histStr(old.Hist) {
					best[cd.H] = cd
				}
			}
		}
		next := make([]bnode, 0, len(best))
		for _, cd := range best {
			next = append(next, cd)
		}
		sort.Slice(next, func(a, b int) bool { return next[a].H < next[b].H })
		for _, cd := range next {
			visited[cd.H] = true
		}
		// ---- judging: my share of the new states
		var mineJ levelFile
		for i, cd := range next {
			if i%r.gn != r.gi {
				continue
			}
			if r.c.TimeUp() || violations > 20 {
				break
			}
			judge(cd.Hist, depth == maxDepth)
		}
		mineJ.Stop = stopReason()
		allJ, ok := r.exchange(fmt.Sprintf("j%d", depth), mineJ)
		if !ok {
			finish(false)
			return false
		}
		for _, lf := range allJ {
			if lf.Stop != "" {
				stop = lf.Stop
			}
		}
		if r.gi == 0 {
			r.c.Bound(r.role+"_depth_reached", depth)
			r.c.Note("%s role: depth %d: %d histories executed, %d new states", r.role, depth, j, len(next))
		}
		if stop != "" {
			if stop == "deadline" {
				r.c.NotExhaustive(fmt.Sprintf("%s role: deadline at depth %d", r.role, depth))
			} else if r.gi == 0 {
				r.c.Note("%s role: search stopped after depth %d (first violating depth)", r.role, depth)
			}
			finish(false)
			return false
		}
		frontier = next
	}
	finish(false)
	return true
}
