package c17

// Part (a): validators and the interest trie against a reference grammar / matching rule written from the
// property text and the comments of topic.go, exhaustively over a small segment alphabet.

import (
	"fmt"
	"sort"
	"strings"
	"sync"

	"github.com/anyproto/any-sync/commonspace/pubsub"

	"verif/lib/vk"
)

const sep = "/" // topic.go: segments are separated by '/'

var segAlphabet = []string{"a", "b", "acc", "*", ">", ""}

// allStrings returns every string with 1..maxSeg segments over alphabet.
func allStrings(alphabet []string, maxSeg int) []string {
	var out []string
	cur := [][]string{{}}
	for n := 1; n <= maxSeg; n++ {
		var next [][]string
		for _, p := range cur {
			for _, s := range alphabet {
				q := append(append([]string{}, p...), s)
				next = append(next, q)
				out = append(out, strings.Join(q, sep))
			}
		}
		cur = next
	}
	return out
}

// ---- reference grammar ---------------------------------------------------------------------------

const (
	refMaxLen  = 256 // topic.go: maxTopicLen
	refMaxSegs = 16  // topic.go: maxSegments
)

func refBase(s string) ([]string, bool) {
	if s == "" || len(s) > refMaxLen {
		return nil, false
	}
	segs := strings.Split(s, sep)
	if len(segs) > refMaxSegs {
		return nil, false
	}
	for _, g := range segs {
		if g == "" {
			return nil, false // leading / trailing / doubled separator
		}
	}
	return segs, true
}

// refValidTopic: canonical form and no wildcard characters at all.
func refValidTopic(s string) bool {
	segs, ok := refBase(s)
	if !ok {
		return false
	}
	for _, g := range segs {
		if strings.ContainsAny(g, "*>") {
			return false
		}
	}
	return true
}

// refValidPattern: canonical form; '*' and '>' only as whole segments; '>' only as the last segment.
func refValidPattern(s string) bool {
	segs, ok := refBase(s)
	if !ok {
		return false
	}
	for i, g := range segs {
		switch {
		case g == "*":
		case g == ">":
			if i != len(segs)-1 {
				return false
			}
		case strings.ContainsAny(g, "*>"):
			return false
		}
	}
	return true
}

// refMatch: segment by segment; '*' exactly one segment; trailing '>' one or more segments.
func refMatch(pattern, topic string) bool {
	p := strings.Split(pattern, sep)
	t := strings.Split(topic, sep)
	for i, g := range p {
		if g == ">" && i == len(p)-1 {
			return len(t) >= i+1
		}
		if i >= len(t) {
			return false
		}
		if g != "*" && g != t[i] {
			return false
		}
	}
	return len(p) == len(t)
}

// refOwner: the self-owned namespace is "acc/…", the owner is the last segment (topic.go TopicOwner).
func refOwner(topic string) string {
	segs := strings.Split(topic, sep)
	if len(segs) < 2 || segs[0] != "acc" {
		return ""
	}
	return segs[len(segs)-1]
}

// ---- validators ----------------------------------------------------------------------------------

func extraStrings() []string {
	long := func(n int) string { return strings.Repeat("x", n) }
	segs := func(n int) string { return strings.TrimSuffix(strings.Repeat("s/", n), "/") }
	out := []string{
		"a*", "*a", "a>", ">a", "**", ">>", "*>", "a/b*", "a/*b/c", "a/b>", "a/>b", "a/>>", "a/**", "a*/b", "x>y/z",
		"/", "//", "a/", "/a", "a//b", " ", "a/ /b", "acc/x", "acc", "acc/*", "acc/>", "acc/a/>",
		long(refMaxLen), long(refMaxLen + 1), long(refMaxLen-2) + "/a", long(refMaxLen-1) + "/a",
		segs(refMaxSegs), segs(refMaxSegs + 1), segs(refMaxSegs-1) + "/>", segs(refMaxSegs) + "/>", segs(refMaxSegs-1) + "/*", segs(refMaxSegs + 3),
	}
	return out
}

func partValidators(c *vk.Ctx) {
	all := append(allStrings(segAlphabet, 4), extraStrings()...)
	c.Bound("a_validator_strings", len(all))
	var nValidT, nValidP, nInvalid int
	for _, s := range all {
		gotT := pubsub.ValidateTopic(s) == nil
		gotP := pubsub.ValidatePattern(s) == nil
		wantT, wantP := refValidTopic(s), refValidPattern(s)
		c.Count("evaluations", 2)
		c.Count("executions", 2)
		show := s
		if len(show) > 40 {
			show = fmt.Sprintf("%s…(len %d, %d segments)", show[:20], len(s), strings.Count(s, sep)+1)
		}
		if gotT != wantT {
			c.Violation(fmt.Sprintf("validate-topic:%s", verdict(gotT, wantT)), fmt.Sprintf("ValidateTopic(%q) accepted=%v, the grammar says %v", show, gotT, wantT), map[string]any{"part": "validate", "string": s})
		}
		if gotP != wantP {
			c.Violation(fmt.Sprintf("validate-pattern:%s", verdict(gotP, wantP)), fmt.Sprintf("ValidatePattern(%q) accepted=%v, the grammar says %v", show, gotP, wantP), map[string]any{"part": "validate", "string": s})
		}
		if wantT {
			nValidT++
		}
		if wantP {
			nValidP++
		}
		if !wantT && !wantP {
			nInvalid++
		}
		c.Distinct("distinct", fmt.Sprintf("validate:%v:%v:%d", wantT, wantP, strings.Count(s, sep)))
		// owner of valid topics
		if wantT {
			if got, want := pubsub.TopicOwner(s), refOwner(s); got != want {
				c.Violation("topic-owner", fmt.Sprintf("TopicOwner(%q) = %q, want %q", show, got, want), map[string]any{"part": "validate", "string": s})
			}
		}
	}
	c.Require(nValidT > 100 && nValidP > nValidT && nInvalid > 500, "vacuity: validator string set lost its valid/invalid mix (%d topics, %d patterns, %d invalid)", nValidT, nValidP, nInvalid)
}

func verdict(got, want bool) string {
	if got && !want {
		return "accepts-invalid"
	}
	return "rejects-valid"
}

// ---- trie ----------------------------------------------------------------------------------------

type trieOp struct {
	Add bool   `json:"add"`
	P   string `json:"p"`
}

func (o trieOp) String() string {
	if o.Add {
		return "+" + o.P
	}
	return "-" + o.P
}

var trieSets = [][]string{
	{"a", "a/b", "*", "a/*", "a/>", ">"},
	{"*/b", "a/*/b", "*/>", "a/b/>", "*/*", "b"},
	{"acc/>", "acc/*", "acc/a", "*/a/>", "a/*/>", "*/*/*"},
}

func validTopics() []string {
	var out []string
	for _, s := range allStrings([]string{"a", "b", "acc"}, 4) {
		out = append(out, s)
	}
	return out
}

// prefixes counts the distinct non-empty segment prefixes of the live patterns: the number of nodes a trie
// without leaked nodes holds.
func prefixes(ref map[string]int) int {
	set := map[string]bool{}
	for p, n := range ref {
		if n <= 0 {
			continue
		}
		segs := strings.Split(p, sep)
		for i := 1; i <= len(segs); i++ {
			set[strings.Join(segs[:i], sep)] = true
		}
	}
	return len(set)
}

type trieCtx struct {
	set    []string
	topics []string
	table  [][]bool // [pattern][topic] per the reference rule
}

func newTrieCtx(set, topics []string) *trieCtx {
	tc := &trieCtx{set: set, topics: topics}
	for _, p := range set {
		row := make([]bool, len(topics))
		for i, t := range topics {
			row[i] = refMatch(p, t)
		}
		tc.table = append(tc.table, row)
	}
	return tc
}

func (tc *trieCtx) idx(p string) int {
	for i, q := range tc.set {
		if q == p {
			return i
		}
	}
	panic("pattern outside the set: " + p)
}

func judgeTrie(c *vk.Ctx, tc *trieCtx, seq []trieOp) {
	t := pubsub.VerifNewTrie()
	cnt := make([]int, len(tc.set))
	for _, o := range seq {
		i := tc.idx(o.P)
		if o.Add {
			t.Add(o.P)
			cnt[i]++
		} else {
			t.Remove(o.P)
			if cnt[i] > 0 {
				cnt[i]--
			}
		}
	}
	c.Count("executions", 1)
	c.Count("transitions", int64(len(seq)))
	ref := map[string]int{}
	live := []string{}
	for i, n := range cnt {
		if n > 0 {
			ref[tc.set[i]] = n
			live = append(live, fmt.Sprintf("%s=%d", tc.set[i], n))
		}
	}
	sort.Strings(live)
	c.Distinct("states", "trie:"+strings.Join(live, ","))
	rep := func() any { return map[string]any{"part": "trie", "ops": seq} }
	hist := fmt.Sprint(seq)
	// refcounts and Len
	got := t.Refs()
	gl := []string{}
	for p, n := range got {
		gl = append(gl, fmt.Sprintf("%s=%d", p, n))
	}
	sort.Strings(gl)
	c.Count("evaluations", 3)
	if strings.Join(gl, ",") != strings.Join(live, ",") {
		c.Violation("trie-refcounts", fmt.Sprintf("after %s the trie holds refcounts %v, the reference multiset is %v", hist, gl, live), rep())
		return
	}
	if t.Len() != len(live) {
		c.Violation("trie-len", fmt.Sprintf("after %s Len()=%d, live distinct patterns %d", hist, t.Len(), len(live)), rep())
		return
	}
	if nodes, want := t.NodeCount(), prefixes(ref); nodes != want {
		kind := "trie-leaked-nodes"
		if len(live) == 0 {
			kind = "trie-not-empty-after-removing-everything"
		}
		c.Violation(kind, fmt.Sprintf("after %s the trie holds %d nodes, the live patterns %v need %d", hist, nodes, live, want), rep())
		return
	}
	var want, gs []string
	for ti, topic := range tc.topics {
		gs = append(gs[:0], t.Match(topic)...)
		c.Count("evaluations", 1)
		want = want[:0]
		for i, n := range cnt {
			if n > 0 && tc.table[i][ti] {
				want = append(want, tc.set[i])
			}
		}
		if len(gs) == 0 && len(want) == 0 {
			continue
		}
		sort.Strings(want)
		sort.Strings(gs)
		if strings.Join(gs, "|") != strings.Join(want, "|") {
			kind := "trie-match"
			for i := 1; i < len(gs); i++ {
				if gs[i] == gs[i-1] {
					kind = "trie-match-duplicate"
				}
			}
			c.Violation(kind+":"+matchClass(gs, want, topic), fmt.Sprintf("after %s Match(%q) = %v, the rule gives %v", hist, topic, gs, want), map[string]any{"part": "trie", "ops": seq, "topic": topic})
			return
		}
		if len(want) >= 2 && len(seq) <= 4 {
			c.Distinct("distinct", fmt.Sprintf("match:%s:%v", topic, want))
		}
	}
}

// matchClass names which kind of pattern is wrongly present / missing.
func matchClass(got, want []string, topic string) string {
	in := func(l []string, x string) bool {
		for _, y := range l {
			if x == y {
				return true
			}
		}
		return false
	}
	kindOf := func(p string) string {
		switch {
		case strings.HasSuffix(p, ">"):
			return "tail"
		case strings.Contains(p, "*"):
			return "star"
		}
		return "literal"
	}
	for _, g := range got {
		if !in(want, g) {
			return "extra-" + kindOf(g)
		}
	}
	for _, w := range want {
		if !in(got, w) {
			return "missing-" + kindOf(w)
		}
	}
	return "multiplicity"
}

func partTrie(c *vk.Ctx, shard, nshards int) {
	topics := validTopics()
	c.Bound("a_trie_topics", len(topics))
	depths := vk.Pick(c, []int{4, 3, 3}, []int{6, 5, 5})
	c.Bound("a_trie_seq_len", depths)
	type job struct {
		set   int
		first trieOp
	}
	var jobs []job
	for si, set := range trieSets {
		for _, add := range []bool{true, false} {
			for _, p := range set {
				jobs = append(jobs, job{set: si, first: trieOp{add, p}})
			}
		}
	}
	var wg sync.WaitGroup
	sem := make(chan struct{}, 1)
	for ji, j := range jobs {
		if nshards > 1 && ji%nshards != shard {
			continue
		}
		wg.Add(1)
		sem <- struct{}{}
		go func(j job) {
			defer wg.Done()
			defer func() { <-sem }()
			set := trieSets[j.set]
			tc := newTrieCtx(set, topics)
			var ops []trieOp
			for _, add := range []bool{true, false} {
				for _, p := range set {
					ops = append(ops, trieOp{add, p})
				}
			}
			var rec func(seq []trieOp)
			rec = func(seq []trieOp) {
				if c.TimeUp() {
					c.NotExhaustive("deadline inside the trie sequence enumeration")
					return
				}
				judgeTrie(c, tc, seq)
				if len(seq) >= depths[j.set] {
					return
				}
				for _, o := range ops {
					rec(append(append([]trieOp{}, seq...), o))
				}
			}
			rec([]trieOp{j.first})
		}(j)
	}
	wg.Wait()
}
