package c17

// Events and the reference model of part (b), written from the property text: who is registered for what, and
// for every publish who must receive it.

import (
	"fmt"
	"sort"
	"strings"
)

type event struct {
	K  string   `json:"k"`            // sub unsub pub close closew open mem- mem+ evict reval closespace tick lsub lunsub lpub echo
	S  string   `json:"s,omitempty"`  // stream
	Sp string   `json:"sp,omitempty"` // space
	L  []string `json:"l,omitempty"`  // pattern list (templates); lsub: L[0] = pattern; lpub: L[0] = topic
	A  string   `json:"a,omitempty"`  // account name
	N  int      `json:"n,omitempty"`  // index (lunsub)
	P  *pubSpec `json:"p,omitempty"`
	// Ok (lsub only): whether the service accepted the local subscription, recorded when the event was first
	// executed. The local pattern cap is not part of the property, so the reference follows the service here.
	Ok *bool `json:"ok,omitempty"`
}

func (e event) String() string {
	switch e.K {
	case "sub", "unsub":
		return fmt.Sprintf("%s(%s,%s,[%s])", e.K, e.S, e.Sp, strings.Join(e.L, " "))
	case "pub":
		return e.P.String()
	case "close", "closew", "open":
		return fmt.Sprintf("%s(%s)", e.K, e.S)
	case "mem-", "mem+", "evict":
		return fmt.Sprintf("%s(%s,%s)", e.K, e.Sp, e.A)
	case "reval", "closespace":
		return fmt.Sprintf("%s(%s)", e.K, e.Sp)
	case "lsub", "lpub":
		return fmt.Sprintf("%s(%s,%s)", e.K, e.Sp, e.L[0])
	case "lunsub":
		return fmt.Sprintf("lunsub(#%d)", e.N)
	case "lunsub-stale":
		return "lunsub-stale()"
	}
	return e.K
}

func histStr(h []event) string {
	l := make([]string, len(h))
	for i, e := range h {
		l[i] = e.String()
	}
	return strings.Join(l, " ; ")
}

type mlsub struct {
	id      int
	space   string
	pattern string
}

type model struct {
	role    string
	member  map[string]map[string]bool
	open    map[string]bool
	reg     map[string]map[string]map[string]bool // stream -> space -> pattern templates
	lsubs   []mlsub
	nextSub int
	seen    map[string]bool // msgId labels recorded by the duplicate filter
	ticks   int
	own     int // number of own publishes so far (the last one can be echoed)
	stale   int // handles of local subscriptions dropped by CloseSpace, not yet called
}

func newModel(role string) *model {
	m := &model{role: role, member: initialMembers(), open: map[string]bool{}, reg: map[string]map[string]map[string]bool{}, seen: map[string]bool{}}
	for _, s := range streamSpecs {
		m.open[s.Name] = true
	}
	return m
}

func (m *model) pats(s, sp string, create bool) map[string]bool {
	if m.reg[s] == nil {
		if !create {
			return nil
		}
		m.reg[s] = map[string]map[string]bool{}
	}
	if m.reg[s][sp] == nil && create {
		m.reg[s][sp] = map[string]bool{}
	}
	return m.reg[s][sp]
}

func (m *model) total(s string) int {
	n := 0
	for _, p := range m.reg[s] {
		n += len(p)
	}
	return n
}

func (m *model) hasInterest() bool {
	for _, bs := range m.reg {
		for _, p := range bs {
			if len(p) > 0 {
				return true
			}
		}
	}
	return len(m.lsubs) > 0
}

func validSpace(sp string) bool { return sp != "" && !strings.Contains(sp, sep) }

func responsible(sp string) bool { return sp == "X" || sp == "Y" }

// enabled reports whether the event can happen in the current state (a closed stream carries no frames …).
func (m *model) enabled(e event) bool {
	switch e.K {
	case "sub", "unsub":
		return m.open[e.S]
	case "pub":
		return m.open[e.P.Stream]
	case "close", "closew":
		return m.open[e.S]
	case "open":
		return !m.open[e.S]
	case "mem-":
		return m.member[e.Sp][e.A]
	case "mem+":
		return !m.member[e.Sp][e.A]
	case "tick":
		return m.ticks < 2
	case "lunsub":
		return e.N < len(m.lsubs)
	case "echo":
		return m.own > 0 && m.open["n"]
	case "lunsub-stale":
		return m.stale > 0
	case "lsub", "lpub", "closespace", "evict", "reval":
		return true
	}
	panic("unknown event kind " + e.K)
}

// expect is the judged outcome of one publish.
type expect struct {
	reason    string   // ok / relayed-ok / reject class
	streams   []string // streams that must receive exactly one copy (node role)
	judgeFan  bool     // the fan-out is judged
	noForward bool     // nothing may be handed to other nodes
	handlers  []int    // local subscriptions whose handler must run exactly once (client role)
	judgeH    bool
	sole      string // the only failing condition, if exactly one failed (vacuity classes)
	topic     string // topic template as carried by the frame
	space     string
	identity  string
	id        string
}

func (m *model) matching(space, topic string) []string {
	var out []string
	for _, sp := range streamSpecs {
		if !m.open[sp.Name] {
			continue
		}
		for p := range m.pats(sp.Name, space, false) {
			if refMatch(expand(p), topic) {
				out = append(out, sp.Name)
				break
			}
		}
	}
	sort.Strings(out)
	return out
}

// frameOf derives the fields actually carried by the frame (after tampering).
func frameOf(ps pubSpec) (space, topic, identity, id string, sigOK bool) {
	space, topic, identity, id = ps.Space, ps.Topic, ps.Signer, ps.Id
	sigOK = ps.Signer != ""
	switch ps.Mut {
	case "badsig", "payload", "ts":
		sigOK = false
	case "topic":
		topic, sigOK = ps.MutArg, false
	case "space":
		space, sigOK = ps.MutArg, false
	case "msgid":
		id, sigOK = ps.Id+"'", false
	case "garbage-id":
		identity, sigOK = "!garbage", false
	case "strip-id":
		identity, sigOK = "", false
	case "swap-id":
		identity, sigOK = ps.MutArg, false
	}
	return
}

func (m *model) fresh(ts string) bool {
	now := int64(m.ticks) * int64(tickStep)
	var t int64
	switch ts {
	case "", "t0":
		t = 0
	case "now":
		t = now
	case "old":
		t = now - int64(tickStep)
	case "future":
		t = now + int64(tickStep)
	}
	d := now - t
	return d <= int64(skew) && d >= -int64(skew)
}

func (m *model) expectNode(ps pubSpec) *expect {
	space, topicT, identity, id, _ := frameOf(ps)
	topic := expand(topicT)
	ex := &expect{judgeFan: true, noForward: true, topic: topicT, space: space, identity: identity, id: id}
	sender := specOf(ps.Stream)
	var fails []string
	if !refValidTopic(topic) {
		fails = append(fails, "invalid-topic")
	}
	if !responsible(space) {
		fails = append(fails, "not-responsible")
	}
	if ps.Relayed {
		if !sender.Node {
			fails = append(fails, "relay-from-non-node")
		}
		if len(fails) == 0 {
			ex.reason = "relayed-ok"
			ex.streams = m.matching(space, topic)
			return ex
		}
	} else {
		switch {
		case sender.Acct == "":
			fails = append(fails, "unproven-sender")
		case identity == "":
			fails = append(fails, "identity-absent")
		case identity != sender.Acct:
			fails = append(fails, "identity-mismatch")
		}
		if sender.Acct != "" && !m.member[space][sender.Acct] {
			fails = append(fails, "non-member")
		}
		if owner := refOwner(topic); owner != "" && refValidTopic(topic) && (sender.Acct == "" || owner != acct(sender.Acct).AccountId) {
			fails = append(fails, "foreign-namespace")
		}
		if len(fails) == 0 {
			ex.reason = "ok"
			ex.noForward = false
			ex.streams = m.matching(space, topic)
			return ex
		}
	}
	ex.reason = "reject:" + fails[0]
	if len(fails) == 1 {
		ex.sole = fails[0]
	}
	return ex
}

func (m *model) expectClient(ps pubSpec) *expect {
	space, topicT, identity, id, sigOK := frameOf(ps)
	topic := expand(topicT)
	ex := &expect{judgeH: true, topic: topicT, space: space, identity: identity, id: id, noForward: ps.Relayed}
	var matched []int
	for _, ls := range m.lsubs {
		if ls.space == space && refMatch(expand(ls.pattern), topic) {
			matched = append(matched, ls.id)
		}
	}
	var fails []string
	if !refValidTopic(topic) {
		fails = append(fails, "invalid-topic")
	}
	if len(matched) == 0 {
		fails = append(fails, "no-local-match")
	}
	parses := identity != "" && identity != "!garbage"
	if !parses {
		fails = append(fails, "bad-identity")
	} else {
		if !m.member[space][identity] {
			fails = append(fails, "non-member")
		}
		if owner := refOwner(topic); owner != "" && refValidTopic(topic) && owner != acct(identity).AccountId {
			fails = append(fails, "foreign-namespace")
		}
	}
	if !m.fresh(ps.Ts) {
		fails = append(fails, "stale")
	}
	if !sigOK && parses {
		fails = append(fails, "forged")
	}
	if m.seen[id] {
		fails = append(fails, "replay")
	}
	if len(fails) == 0 {
		ex.reason = "ok"
		ex.handlers = matched
		m.seen[id] = true
		return ex
	}
	ex.reason = "reject:" + fails[0]
	if len(fails) == 1 {
		ex.sole = fails[0]
	}
	return ex
}

// apply advances the model; for a publish it returns what must be observed.
func (m *model) apply(e event) *expect {
	switch e.K {
	case "sub":
		m.sub(e.S, e.Sp, e.L)
	case "unsub":
		pats := m.pats(e.S, e.Sp, false)
		if len(e.L) == 0 {
			for p := range pats {
				delete(pats, p)
			}
		} else {
			for _, p := range e.L {
				delete(pats, p)
			}
		}
	case "pub":
		if m.role == "node" {
			return m.expectNode(*e.P)
		}
		return m.expectClient(*e.P)
	case "close", "closew":
		m.open[e.S] = false
		delete(m.reg, e.S)
	case "open":
		m.open[e.S] = true
	case "mem-":
		delete(m.member[e.Sp], e.A)
	case "mem+":
		m.member[e.Sp][e.A] = true
	case "evict":
		for _, sp := range streamSpecs {
			if sp.Acct == e.A && m.reg[sp.Name] != nil {
				delete(m.reg[sp.Name], e.Sp)
			}
		}
	case "reval":
		for _, sp := range streamSpecs {
			if sp.Acct != "" && !m.member[e.Sp][sp.Acct] && m.reg[sp.Name] != nil {
				delete(m.reg[sp.Name], e.Sp)
			}
		}
	case "closespace":
		for _, bs := range m.reg {
			delete(bs, e.Sp)
		}
		var keep []mlsub
		for _, ls := range m.lsubs {
			if ls.space != e.Sp {
				keep = append(keep, ls)
			} else {
				m.stale++
			}
		}
		m.lsubs = keep
	case "lunsub-stale":
		m.stale-- // calling the handle of a subscription that no longer exists changes nothing
	case "tick":
		m.ticks++
	case "lsub":
		id := m.nextSub
		m.nextSub++ // the harness numbers every attempt
		ok := refValidPattern(expand(e.L[0]))
		if e.Ok != nil {
			ok = *e.Ok
		}
		if ok {
			m.lsubs = append(m.lsubs, mlsub{id: id, space: e.Sp, pattern: e.L[0]})
		}
	case "lunsub":
		m.lsubs = append(append([]mlsub{}, m.lsubs[:e.N]...), m.lsubs[e.N+1:]...)
	case "lpub":
		topic := expand(e.L[0])
		// the frame sent to the node link can be captured (and echoed later) only while that link is open
		if refValidTopic(topic) && (refOwner(topic) == "" || refOwner(topic) == acct("S").AccountId) && m.open["n"] {
			m.own++
		}
	case "echo":
		// the node sends our own message back: a replay of something already delivered locally
		return &expect{judgeH: true, reason: "reject:replay", sole: "replay-own", id: fmt.Sprintf("own%d", m.own)}
	default:
		panic("unknown event kind " + e.K)
	}
	return nil
}

func (m *model) sub(s, sp string, list []string) {
	spec := specOf(s)
	if spec.Acct == "" || !validSpace(sp) {
		return
	}
	if m.role == "node" && !responsible(sp) {
		return
	}
	for _, p := range list {
		if !refValidPattern(expand(p)) {
			return // one invalid pattern refuses the whole frame
		}
	}
	if !m.member[sp][spec.Acct] {
		return
	}
	pats := m.pats(s, sp, true)
	total := m.total(s)
	for _, p := range list {
		if pats[p] {
			continue
		}
		if len(pats) >= capPerSpace || total >= capPerStream {
			break
		}
		pats[p] = true
		total++
	}
	if len(pats) == 0 {
		delete(m.reg[s], sp)
	}
}

// regStr renders the registered interest canonically.
func (m *model) regStr() string {
	var l []string
	for s, bs := range m.reg {
		for sp, pats := range bs {
			if len(pats) == 0 {
				continue
			}
			var pl []string
			for p := range pats {
				pl = append(pl, p)
			}
			sort.Strings(pl)
			l = append(l, fmt.Sprintf("%s/%s=%s", s, sp, strings.Join(pl, ",")))
		}
	}
	sort.Strings(l)
	return strings.Join(l, ";")
}

// harnessKey is the part of the canonical state that lives outside the service.
func (m *model) harnessKey() string {
	var l []string
	for _, sp := range spaces {
		var ms []string
		for a, ok := range m.member[sp] {
			if ok {
				ms = append(ms, a)
			}
		}
		sort.Strings(ms)
		l = append(l, sp+":"+strings.Join(ms, ""))
	}
	var op []string
	for _, sp := range streamSpecs {
		if m.open[sp.Name] {
			op = append(op, sp.Name)
		}
	}
	var ls []string
	for _, x := range m.lsubs {
		ls = append(ls, x.space+":"+x.pattern)
	}
	return fmt.Sprintf("members=%s open=%s ticks=%d lsubs=%s own=%v stale=%d", strings.Join(l, ","), strings.Join(op, ","), m.ticks, strings.Join(ls, ","), m.own > 0, m.stale)
}
