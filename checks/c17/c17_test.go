// C17 — pub/sub delivers exactly to matching member subscriptions and leaks no state.
//
// (a) validators and interest trie against a reference grammar / matching rule, exhaustively over a small segment
// alphabet; (b) explicit-state BFS over event histories of the real service (node role and client role) with its
// real private stream pool, fake streams / membership / relay, every execution in its own synctest bubble;
// (c) two concurrent operations under the controlled scheduler (engine C) at every pubsub and pool mutex.
package c17

import (
	"fmt"
	"os"
	"path/filepath"
	"runtime"
	"strings"
	"testing"
	"time"

	"go.uber.org/zap"
	"go.uber.org/zap/zapcore"

	"github.com/anyproto/any-sync/app/logger"
	"github.com/anyproto/any-sync/net/streampool"

	"verif/lib/vk"
)

func TestCheck(t *testing.T) {
	logger.SetDefault(zap.NewNop().WithOptions(zap.WithFatalHook(zapcore.WriteThenPanic)))
	logger.SetNamedLevels(logger.LevelsFromStr("*=fatal"))
	streampool.VerifPanicOnFatal()
	vk.Main(t, vk.Spec{
		Prop:  "C17",
		Level: "model_checking",
		Rule: "(a) every string of <= 4 segments over {a,b,acc,*,>,empty} plus length / segment-count boundary strings through ValidateTopic/ValidatePattern/TopicOwner vs a reference grammar; every Add/Remove sequence (length <= 4/3/3 quick, <= 6/5/5 thorough) over three sets of 6 patterns on the real trie x all 120 valid topics of <= 4 segments over {a,b,acc}: Match, Len, refcounts and node count vs the reference multiset; " +
			"(b) level-synchronous BFS with replay-from-scratch (depth 4 quick, 6 thorough) over subscribe (single, several, duplicate, invalid, empty, over-cap) / unsubscribe (list, all) / stream close (peer EOF, connection context) / reopen / membership change / EvictMember / RevalidateMembers / CloseSpace / clock advance / local subscribe, unsubscribe, stale unsubscribe, publish, echo / incoming publish histories of the real service in node role and in client role (5 fake streams: two of one peer, one of another account, a node link, an unauthenticated one; 2 spaces; accounts A,B members, C,N not), deduplicated on the complete canonical bookkeeping (tries, stream records, pool tags, local maps, duplicate filter, membership, clock); after every event the three views of serving-side interest must agree with each other and with the reference; from every new state a battery of 30 publish variants is judged against the reference model (receiver set, <= 1 copy, no re-forwarding, handler invocations) and each of 9-11 teardown orders must leave no bookkeeping; " +
			"(c) stateless DFS over all schedules within the preemption bound (2 quick, 4 thorough) of 17 pairs of concurrent operations at every pubsub / stream-pool mutex acquisition and stream.closed operation: no panic / deadlock / pool Fatal, final bookkeeping and delivery explained by some order of the two operations; " +
			"states = distinct canonical service states (b) + distinct trie multisets (a) + distinct race outcomes (c); distinct_nontrivial = distinct publish outcome classes (reason x receiver set), match sets with >= 2 patterns, validator classes, race outcomes",
		Assumptions: []string{
			"publish rate stays below the per-peer rate limit and fewer than DedupSize distinct messages arrive within the timestamp window (limiter and ring eviction are not exercised)",
			"pattern caps are configured small (2 per space, 3 per stream) so that over-cap subscribes are reachable; which patterns an over-cap frame registers follows the documented rule (first ones accepted, the rest refused); the cap on local subscriptions is not judged (the reference follows the service's answer)",
			"a relayed message arriving from a responsible node is trusted (its original sender was checked by the ingress node); the relay role does not verify signatures or filter duplicates (clients do); the client role never fans out to streams; Status frames are not judged",
			"self-owned namespace: first segment acc, owner = last segment (topic.go)",
			"part (c): goroutines interleave only at mutex acquisitions of commonspace/pubsub and net/streampool, at stream.closed operations and at harness stream events; an operation touching several streams (CloseSpace, EvictMember, RevalidateMembers) racing with a publish is judged per subscriber stream",
		},
		Shards: func(string) int { return 16 },
		Budget: func(tier string) time.Duration {
			if tier == "quick" {
				return 80 * time.Second
			}
			return 24 * time.Minute
		},
	}, func(c *vk.Ctx) { body(t, c) })
}

// Shard layout (every process runs on one OS thread: a synctest bubble is a sequential hand-off between goroutines and
// runs several times faster without cross-thread wake-ups; the controlled scheduler of part (c) is process-global):
// the first group of processes shares the node-role search, the second the client-role search, the rest take the
// trie sequences of part (a) and the race scenarios of part (c).
func layout(n int) (nNode, nClient, nRest int) {
	switch {
	case n <= 1:
		return 1, 0, 0
	case n == 2:
		return 1, 1, 0
	case n < 8:
		nRest = 1
	default:
		nRest = 2
	}
	nClient = max(1, (n-nRest)*5/14)
	return n - nRest - nClient, nClient, nRest
}

func body(t *testing.T, c *vk.Ctx) {
	runtime.GOMAXPROCS(1)
	if c.Replay != "" {
		replay(t, c)
		return
	}
	n := max(c.NShards, 1)
	nNode, nClient, nRest := layout(n)
	dir := filepath.Dir(os.Getenv("VERIF_OUT"))
	rest := func(i, k int) {
		if i == 0 {
			partValidators(c)
		}
		partTrie(c, i, k)
		partRaces(t, c, i, k)
	}
	switch {
	case c.Shard < nNode:
		partService(t, c, "node", c.Shard, nNode, dir)
		if nClient == 0 {
			partService(t, c, "client", 0, 1, dir)
		}
		if nRest == 0 && c.Shard == 0 && nClient == 0 {
			rest(0, 1)
		}
	case c.Shard < nNode+nClient:
		partService(t, c, "client", c.Shard-nNode, nClient, dir)
		if nRest == 0 && c.Shard == nNode {
			rest(0, 1)
		}
	default:
		rest(c.Shard-nNode-nClient, nRest)
	}
}

// ---- alphabets ---------------------------------------------------------------------------------------

func sub(s, sp string, l ...string) event   { return event{K: "sub", S: s, Sp: sp, L: l} }
func unsub(s, sp string, l ...string) event { return event{K: "unsub", S: s, Sp: sp, L: l} }
func pub(p pubSpec) event                   { return event{K: "pub", P: &p} }

func nodeAlphabet(c *vk.Ctx) []event {
	a := []event{
		// subscribe: single, two, duplicate inside one frame, one invalid pattern, empty list, over the per-space cap
		sub("s0", "X", "a"), sub("s0", "X", "*", "a/>"), sub("s0", "X", "a", "a"), sub("s0", "X", "acc/>", "a//b"), sub("s0", "X"), sub("s0", "X", "a", "acc/*", "a/>"),
		sub("s1", "X", "a"), sub("s1", "X", "*", "a/>"), sub("s1", "X"),
		sub("s2", "X", "a"), sub("s2", "X", "acc/>", "a/b"), sub("s2", "X", "a", "*", "a/>"),
		sub("s0", "Y", "a"), sub("s0", "Y"), sub("s0", "Y", "*", "a/>"), sub("s2", "Y", "a"),
		sub("n", "X", ">"),
		unsub("s0", "X"), unsub("s0", "X", "a"), unsub("s0", "X", "*", "b"), unsub("s1", "X"), unsub("s2", "X"), unsub("s2", "X", "a"), unsub("s0", "Y"),
		{K: "close", S: "s0"}, {K: "close", S: "s1"}, {K: "close", S: "s2"}, {K: "close", S: "n"}, {K: "closew", S: "s0"},
		{K: "open", S: "s0"}, {K: "open", S: "s2"},
		{K: "mem-", Sp: "X", A: "A"}, {K: "mem-", Sp: "X", A: "B"}, {K: "mem-", Sp: "Y", A: "A"}, {K: "mem+", Sp: "Y", A: "B"},
		{K: "evict", Sp: "X", A: "A"}, {K: "evict", Sp: "X", A: "B"}, {K: "evict", Sp: "Y", A: "A"}, {K: "evict", Sp: "Y", A: "B"},
		{K: "reval", Sp: "X"}, {K: "reval", Sp: "Y"},
		{K: "closespace", Sp: "X"}, {K: "closespace", Sp: "Y"},
	}
	if c.Thorough() {
		a = append(a, event{K: "tick"}, event{K: "closew", S: "s2"}, event{K: "open", S: "s1"}, event{K: "open", S: "n"},
			sub("s0", "X/a", "b"), // a space id that would collide with the tag of (X, a/b)
			sub("s0", "Z", "a"),   // a space this node is not responsible for
		)
	}
	return a
}

func nodeProbes() []event {
	P := func(stream, signer, topic, space, id string) pubSpec {
		return pubSpec{Stream: stream, Signer: signer, Topic: topic, Space: space, Id: id, Ts: "now"}
	}
	with := func(p pubSpec, f func(*pubSpec)) pubSpec { f(&p); return p }
	rel := func(p *pubSpec) { p.Relayed = true }
	return []event{
		pub(P("s0", "A", "a", "X", "n1")),
		pub(P("s0", "A", "a/b", "X", "n2")),
		pub(P("s0", "A", "acc/$A", "X", "n3")),
		pub(P("s0", "A", "acc/$B", "X", "n4")), // foreign self-owned namespace
		pub(P("s2", "B", "a", "X", "n5")),
		pub(P("s2", "B", "acc/$A", "X", "n6")),
		pub(P("s2", "B", "acc/$B", "X", "n7")),
		pub(P("s0", "B", "a", "X", "n8")), // properly signed by B, sent on A's stream
		pub(P("s0", "", "a", "X", "n9")),  // no identity
		pub(with(P("s0", "A", "a", "X", "n9b"), func(p *pubSpec) { p.Mut = "strip-id" })),
		pub(with(P("s0", "A", "a", "X", "n9c"), func(p *pubSpec) { p.Mut, p.MutArg = "swap-id", "B" })),
		pub(P("s0", "A", "a//b", "X", "n10")),
		pub(P("s0", "A", "a/*", "X", "n11")),
		pub(P("s0", "A", ">", "X", "n12")),
		pub(P("s0", "A", "a", "Y", "n13")),
		pub(P("s2", "B", "a", "Y", "n14")),
		pub(with(P("n", "A", "a", "X", "n15"), rel)),
		pub(with(P("n", "A", "a/b", "X", "n15b"), rel)),
		pub(with(P("s2", "B", "a", "X", "n16"), rel)),  // a non-node peer claiming relay
		pub(with(P("s0", "A", "a", "X", "n16b"), rel)), // even with its own member identity
		pub(with(P("n", "A", "a//b", "X", "n17"), rel)),
		pub(P("n", "N", "a", "X", "n18")), // a node publishing for itself: not a member
		pub(P("z", "", "a", "X", "n19")),  // unauthenticated stream, no identity in the message either
		pub(P("z", "A", "a", "X", "n20")), // unauthenticated stream presenting A's signed message
		pub(P("s1", "A", "a", "X", "n21")),
		pub(P("s0", "A", "acc/b/$A", "X", "n22")),
		pub(P("s0", "A", "b", "X", "n23")),
		pub(P("s0", "A", "a", "Z", "n24")), // a space this node is not responsible for
		pub(with(P("n", "A", "a", "Y", "n25"), rel)),
		pub(P("s0", "A", "a", "X", "n1")), // the same message again: the relay role does not filter duplicates
	}
}

func clientAlphabet(c *vk.Ctx) []event {
	Q := func(stream, signer, topic, space, id string) event {
		return pub(pubSpec{Stream: stream, Signer: signer, Topic: topic, Space: space, Id: id, Ts: "t0"})
	}
	a := []event{
		{K: "lsub", Sp: "X", L: []string{"a"}}, {K: "lsub", Sp: "X", L: []string{"*"}}, {K: "lsub", Sp: "X", L: []string{"a/>"}}, {K: "lsub", Sp: "X", L: []string{"acc/>"}},
		{K: "lsub", Sp: "Y", L: []string{"a"}}, {K: "lsub", Sp: "X", L: []string{"a//b"}},
		{K: "lunsub", N: 0}, {K: "lunsub", N: 1}, {K: "lunsub", N: 2}, {K: "lunsub-stale"},
		{K: "closespace", Sp: "X"}, {K: "closespace", Sp: "Y"},
		{K: "tick"},
		{K: "mem-", Sp: "X", A: "A"}, {K: "mem-", Sp: "X", A: "B"},
		Q("n", "A", "a", "X", "qA"), Q("n", "B", "a/b", "X", "qB"), Q("n", "A", "acc/$A", "X", "qC"), Q("n", "A", "a", "Y", "qD"), Q("s2", "B", "a", "X", "qE"),
		Q("n", "A", "a", "X", "qZ"), // a valid message whose id is all zero bytes
		{K: "lpub", Sp: "X", L: []string{"a"}}, {K: "echo"},
		sub("s0", "X", "a"), unsub("s0", "X"), {K: "close", S: "s0"}, {K: "close", S: "n"}, {K: "open", S: "n"},
	}
	if c.Thorough() {
		a = append(a, event{K: "lpub", Sp: "X", L: []string{"acc/$S"}}, event{K: "mem+", Sp: "Y", A: "B"}, sub("s2", "X", "*", "a/>"), event{K: "evict", Sp: "X", A: "A"})
	}
	return a
}

func clientLabels() []string { return []string{"qA", "qB", "qC", "qD", "qE", "qZ"} }

func clientProbes() []event {
	P := func(signer, topic, space, id string) pubSpec {
		return pubSpec{Stream: "n", Signer: signer, Topic: topic, Space: space, Id: id, Ts: "now"}
	}
	with := func(p pubSpec, f func(*pubSpec)) pubSpec { f(&p); return p }
	mut := func(m, arg string) func(*pubSpec) { return func(p *pubSpec) { p.Mut, p.MutArg = m, arg } }
	return []event{
		pub(P("A", "a", "X", "v1")),
		pub(P("A", "a", "X", "v1")), // replayed
		pub(P("B", "a/b", "X", "v2")),
		pub(P("A", "acc/$A", "X", "v3")),
		pub(P("A", "acc/x/$A", "X", "v3b")),
		pub(P("B", "acc/$A", "X", "v4")), // someone else's self-owned topic
		pub(P("C", "a", "X", "v5")),      // signed by a non-member
		pub(with(P("A", "a", "X", "v6"), mut("badsig", ""))),
		pub(with(P("A", "b", "X", "v7"), mut("topic", "a"))), // signed for topic b, carried as a
		pub(with(P("A", "a", "X", "v8"), mut("payload", ""))),
		pub(with(P("A", "a", "X", "v9"), mut("ts", ""))),
		pub(with(P("A", "a", "Y", "v10"), mut("space", "X"))), // signed for space Y, carried in X
		pub(with(P("A", "a", "X", "v11"), mut("msgid", ""))),
		pub(with(P("C", "a", "X", "v12"), mut("swap-id", "A"))), // signed by C, claims to be A
		pub(with(P("A", "a", "X", "v13"), mut("garbage-id", ""))),
		pub(with(P("A", "a", "X", "v14"), mut("strip-id", ""))),
		pub(P("", "a", "X", "v14b")),
		pub(with(P("A", "a", "X", "v15"), func(p *pubSpec) { p.Ts = "old" })),
		pub(with(P("A", "a", "X", "v16"), func(p *pubSpec) { p.Ts = "future" })),
		pub(with(P("A", "a", "X", "v16b"), func(p *pubSpec) { p.Ts = "t0" })),
		pub(P("A", "a/*", "X", "v17")),
		pub(P("A", "a//b", "X", "v17b")),
		pub(with(P("A", "a", "X", "v18"), func(p *pubSpec) { p.Stream = "s2" })), // arriving from a LAN peer
		pub(with(P("A", "a", "X", "v19"), func(p *pubSpec) { p.Relayed = true })),
		pub(with(P("A", "a", "X", "v19s"), func(p *pubSpec) { p.Relayed = true; p.Ts = "old" })), // relayed and stale
		pub(P("A", "a", "Y", "v21")),
		pub(P("B", "a", "X", "v22")),
		pub(P("B", "a", "X", "v22")),                                                               // replayed
		pub(with(P("A", "a", "X", "v19"), func(p *pubSpec) { p.Relayed = true; p.Stream = "s2" })), // replayed over another link
		// a forged frame must not use up the message id of the genuine message that follows it
		pub(with(P("A", "a", "X", "v30"), mut("badsig", ""))),
		pub(P("A", "a", "X", "v30")),
		pub(with(P("B", "a/b", "X", "v31"), func(p *pubSpec) { p.Mut = "badsig"; p.Stream = "s2" })),
		pub(P("B", "a/b", "X", "v31")),
	}
}

func partService(t *testing.T, c *vk.Ctx, role string, gi, gn int, dir string) {
	r := &runner{c: c, t: t, role: role, vac: &vacuity{m: map[string]int{}}, gi: gi, gn: gn, dir: dir}
	var alphabet, probes []event
	var depth int
	if role == "node" {
		alphabet, probes = nodeAlphabet(c), nodeProbes()
		depth = vk.Pick(c, 4, 6)
	} else {
		alphabet, probes = clientAlphabet(c), clientProbes()
		r.labels = clientLabels()
		depth = vk.Pick(c, 4, 6)
	}
	if v := os.Getenv("C17_DEPTH"); v != "" {
		fmt.Sscan(v, &depth)
	}
	c.Bound("b_"+role+"_alphabet", len(alphabet))
	c.Bound("b_"+role+"_probes", len(probes))
	c.Bound("b_"+role+"_max_depth", depth)
	start := time.Now()
	complete := r.bfs(alphabet, probes, depth)
	v := r.vac
	for k, n := range v.m {
		c.Count("vac_"+role+"_"+k, int64(n))
	}
	if gi != 0 {
		return
	}
	c.Note("%s role: BFS took %s", role, time.Since(start).Round(time.Millisecond))
	// vacuity guards: the classes are met from the shallowest states on, so the first process of the group (which
	// judges the initial state and its share of every level) must have seen each of them
	if !complete || c.NViolations() > 0 {
		return // the guards below only make sense for a complete search
	}
	if role == "node" {
		c.Require(v.get("delivered-to-2") > 0, "vacuity: no publish was delivered to two streams")
		c.Require(v.get("echo-to-publisher") > 0, "vacuity: no publish came back to its subscribed publisher")
		for _, k := range []string{"non-member", "identity-mismatch", "identity-absent", "foreign-namespace", "invalid-topic", "relay-from-non-node", "unproven-sender"} {
			c.Require(v.get("node-reject:"+k) > 0, "vacuity: no publish was rejected solely for %s while a subscriber was matching", k)
		}
		c.Require(v.get("relayed-delivered-not-forwarded") > 0, "vacuity: no relayed message was delivered locally without being forwarded")
	} else {
		c.Require(v.get("client-delivered") > 0, "vacuity: no message reached a local handler")
		for _, k := range []string{"replay", "replay-own", "stale", "forged", "non-member", "foreign-namespace", "invalid-topic", "bad-identity"} {
			c.Require(v.get("client-reject:"+k) > 0, "vacuity: no message was kept from the handlers solely for %s", k)
		}
	}
	c.Require(v.get(role+":teardowns-clean") > 0, "vacuity: no teardown found interest to clean (%s role)", role)
}

// ---- replay ------------------------------------------------------------------------------------------

func replay(t *testing.T, c *vk.Ctx) {
	var rf struct {
		Case struct {
			Part     string   `json:"part"`
			Role     string   `json:"role"`
			History  []event  `json:"history"`
			Teardown string   `json:"teardown"`
			String   string   `json:"string"`
			Ops      []trieOp `json:"ops"`
			Scenario string   `json:"scenario"`
			Choices  []int    `json:"choices"`
		} `json:"case"`
		Key string `json:"key"`
	}
	if err := vk.ReadJSON(c.Replay, &rf); err != nil {
		c.Broken("replay file: %v", err)
		return
	}
	c.DistinctH("states", 1)
	switch rf.Case.Part {
	case "validate":
		s := rf.Case.String
		fmt.Printf("ValidateTopic=%v (grammar %v) ValidatePattern=%v (grammar %v)\n", pubsubValidT(s), refValidTopic(s), pubsubValidP(s), refValidPattern(s))
		c.Count("executions", 1)
		if pubsubValidT(s) != refValidTopic(s) || pubsubValidP(s) != refValidPattern(s) {
			c.Violation("replayed:validate", fmt.Sprintf("validators still disagree with the grammar on %q", s), rf.Case)
		}
	case "trie":
		set := map[string]bool{}
		var pats []string
		for _, o := range rf.Case.Ops {
			if !set[o.P] {
				set[o.P] = true
				pats = append(pats, o.P)
			}
		}
		judgeTrie(c, newTrieCtx(pats, validTopics()), rf.Case.Ops)
	case "service":
		r := &runner{c: c, t: t, role: rf.Case.Role, vac: &vacuity{m: map[string]int{}}, labels: clientLabels()}
		var td *teardown
		fs, at := r.exec(rf.Case.History, true, func(w *world, m *model, st *stepper) []finding {
			fmt.Println("final state:", r.stateKey(w, m, w.dump()))
			// a finding made while a teardown was still running is recorded with the history up to that step: the
			// emptiness the complete teardown must reach is only demanded when that is what the recorded violation says
			if rf.Case.Teardown == "" || !strings.Contains(rf.Key, "teardown-leak") {
				return nil
			}
			// the teardown events are part of the stored history; which maps must be empty follows from its name
			for _, cand := range teardowns(newModel(rf.Case.Role)) {
				if cand.Name == rf.Case.Teardown {
					td = &teardown{Name: cand.Name, Serving: cand.Serving, Local: cand.Local}
				}
			}
			if td == nil {
				td = &teardown{Name: rf.Case.Teardown, Serving: rf.Case.Teardown != "local-unsubscribe", Local: strings.HasPrefix(rf.Case.Teardown, "local-")}
			}
			return checkEmpty(w, *td, w.dump())
		})
		if len(fs) == 0 {
			fmt.Println("replay: history no longer violates the property")
			return
		}
		h := rf.Case.History
		if at >= 0 {
			h = h[:at+1]
		}
		r.report(fs, h, rf.Case.Teardown)
	case "race":
		replayRace(t, c, rf.Case.Scenario, rf.Case.Choices)
	default:
		c.Broken("replay: unknown part %q", rf.Case.Part)
	}
}
