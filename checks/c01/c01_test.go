// C01 — replicas of an object tree converge under any message schedule.
//
// Explicit-state search over 2–3 real sync-tree replicas (lib/treesim): events are local edits (plain / snapshot)
// and per-message fates (deliver any in-flight message, drop it, deliver a duplicate, cut a response stream after k
// batches). A state is the event history that reaches it; successors are obtained by replaying the history on fresh
// replicas and applying one more event; states are deduplicated on a canonical form. In every state the ancestry
// invariants are checked, and from every distinct state a settle phase (drop or flush the network, then fair
// anti-entropy rounds between every ordered pair) must end with identical heads and identical stored sets.
package c01

import (
	"encoding/json"
	"fmt"
	"strings"
	"testing"
	"time"

	"go.uber.org/zap"

	"github.com/anyproto/any-sync/app/logger"

	"verif/lib/treesim"
	"verif/lib/vk"
)

type event struct {
	Op  string `json:"op"` // edit snap deliver drop dup cut sync
	A   int    `json:"a"`  // replica (edit/snap), message index (deliver/drop/dup/cut), src (sync)
	B   int    `json:"b"`  // cut position / dst (sync)
	Lab string `json:"lab,omitempty"`
}

func (e event) String() string {
	switch e.Op {
	case "edit", "snap":
		return fmt.Sprintf("%s(r%d)", e.Op, e.A)
	case "cut":
		return fmt.Sprintf("cut(#%d after %d: %s)", e.A, e.B, e.Lab)
	default:
		return fmt.Sprintf("%s(#%d: %s)", e.Op, e.A, e.Lab)
	}
}

type budget struct{ Edits, Snaps, Drops, Dups, Cuts int }

type config struct {
	Name     string
	Replicas int
	B        budget
	MaxDepth int
	// RealDepth: every new state reached by a history of at most this length is rebuilt on real any-store databases and
	// must have the same canonical state as on the in-memory storage used by the search.
	RealDepth int
}

func used(h []event) (b budget) {
	for _, e := range h {
		switch e.Op {
		case "edit":
			b.Edits++
		case "snap":
			b.Edits++
			b.Snaps++
		case "drop":
			b.Drops++
		case "dup":
			b.Dups++
		case "cut":
			b.Cuts++
		}
	}
	return
}

// apply performs one event on the world; errors of handlers are not failures (they mean "no progress").
func apply(w *treesim.World, e event) (panicked bool, what string) {
	return vk.Recover(func() {
		switch e.Op {
		case "edit":
			w.Edit(e.A, false)
		case "snap":
			w.Edit(e.A, true)
		case "deliver":
			w.Deliver(w.Take(e.A), -1)
		case "drop":
			w.Take(e.A)
		case "dup":
			m := *w.Net[e.A]
			w.Deliver(&m, -1)
		case "cut":
			w.Deliver(w.Take(e.A), e.B)
		case "sync":
			w.SyncWithPeer(e.A, e.B)
		}
	})
}

func build(f *treesim.Fixture, cfg config, scratch string, h []event) (*treesim.World, string) {
	return buildOn("mem", f, cfg, scratch, h)
}

func buildOn(backend string, f *treesim.Fixture, cfg config, scratch string, h []event) (*treesim.World, string) {
	w, err := treesim.NewWorldOn(backend, f, cfg.Replicas, scratch)
	if err != nil {
		panic(fmt.Sprintf("treesim: %v", err))
	}
	for _, e := range h {
		if p, what := apply(w, e); p {
			return w, what
		}
	}
	return w, ""
}

func enabled(w *treesim.World, cfg config, h []event) (out []event) {
	u := used(h)
	if u.Edits < cfg.B.Edits {
		for i := range w.Replicas {
			out = append(out, event{Op: "edit", A: i})
			if u.Snaps < cfg.B.Snaps {
				out = append(out, event{Op: "snap", A: i})
			}
		}
	}
	seen := map[string]bool{}
	for k, m := range w.Net {
		c := m.Canon()
		if seen[c] {
			continue // identical in-flight messages are interchangeable
		}
		seen[c] = true
		out = append(out, event{Op: "deliver", A: k, Lab: label(m)})
		if u.Drops < cfg.B.Drops {
			out = append(out, event{Op: "drop", A: k, Lab: label(m)})
		}
		if u.Dups < cfg.B.Dups && m.Kind != "resp" {
			out = append(out, event{Op: "dup", A: k, Lab: label(m)})
		}
		if m.Kind == "resp" && u.Cuts < cfg.B.Cuts {
			for c := 0; c < len(m.Batches); c++ {
				out = append(out, event{Op: "cut", A: k, B: c, Lab: label(m)})
			}
		}
	}
	return
}

func label(m *treesim.Msg) string {
	return fmt.Sprintf("%s r%d>r%d heads=%d changes=%d", m.Kind, m.Src, m.Dst, len(m.Heads), len(m.Changes))
}

type finding struct{ key, what string }

// invariants checks the "never holds or advertises a change whose ancestors it does not hold" part.
func invariants(w *treesim.World, sinceSeq int) (out []finding, views []treesim.View) {
	for _, r := range w.Replicas {
		v, err := r.View()
		if err != nil {
			out = append(out, finding{"view-error", fmt.Sprintf("r%d: cannot read tree/storage: %v", r.Idx, err)})
			views = append(views, v)
			continue
		}
		views = append(views, v)
		stored := map[string]bool{}
		for _, s := range v.Stored {
			stored[s.Id] = true
		}
		for _, s := range v.Stored {
			for _, p := range s.PrevIds {
				if !stored[p] {
					out = append(out, finding{"stored-change-without-parent", fmt.Sprintf("r%d stores %s but not its parent %s", r.Idx, s.Id, p)})
				}
			}
			if s.Snapshot != "" && !stored[s.Snapshot] {
				out = append(out, finding{"stored-change-without-snapshot-base", fmt.Sprintf("r%d stores %s but not its snapshot base %s", r.Idx, s.Id, s.Snapshot)})
			}
		}
		// the stored sequence (by order id) is what a restart and every full-sync response are built from: parents
		// come first and no two changes share an order id
		pos := map[string]int{}
		for i, s := range v.Stored {
			pos[s.Id] = i
			if i > 0 && v.Stored[i-1].OrderId >= s.OrderId {
				out = append(out, finding{"stored-order-ids-not-increasing", fmt.Sprintf("r%d stores %s with order id %q after %s with %q", r.Idx, s.Id, s.OrderId, v.Stored[i-1].Id, v.Stored[i-1].OrderId)})
			}
		}
		for i, s := range v.Stored {
			for _, p := range s.PrevIds {
				if pi, ok := pos[p]; ok && pi > i {
					out = append(out, finding{"stored-order-child-before-parent", fmt.Sprintf("r%d stores %s (position %d) before its parent %s (position %d)", r.Idx, s.Id, i, p, pi)})
				}
			}
		}
		for _, h := range v.StorageHeads {
			if !stored[h] {
				out = append(out, finding{"recorded-head-not-stored", fmt.Sprintf("r%d head storage names %s which is not stored", r.Idx, h)})
			}
		}
		if strings.Join(v.Heads, ",") != strings.Join(v.StorageHeads, ",") {
			out = append(out, finding{"live-heads-differ-from-recorded-heads", fmt.Sprintf("r%d live heads %v, recorded heads %v", r.Idx, v.Heads, v.StorageHeads)})
		}
		for _, a := range v.Attached {
			if !stored[a] {
				out = append(out, finding{"presented-change-not-stored", fmt.Sprintf("r%d presents %s which is not stored", r.Idx, a)})
			}
		}
	}
	for _, m := range w.Net {
		if m.Seq <= sinceSeq || m.Src >= len(views) {
			continue
		}
		stored := map[string]bool{}
		for _, s := range views[m.Src].Stored {
			stored[s.Id] = true
		}
		for _, h := range m.Heads {
			if !stored[h] {
				out = append(out, finding{"advertised-head-not-held:" + m.Kind, fmt.Sprintf("r%d sent %s naming head %s it does not store", m.Src, m.Kind, h)})
			}
		}
		for _, c := range m.Changes {
			if !stored[c] {
				out = append(out, finding{"sent-change-not-held:" + m.Kind, fmt.Sprintf("r%d sent change %s it does not store", m.Src, c)})
			}
		}
	}
	return
}

func maxSeq(w *treesim.World) int {
	s := 0
	for _, m := range w.Net {
		if m.Seq > s {
			s = m.Seq
		}
	}
	return s
}

// settle drains the network (variant "drop" or "flush") and runs fair anti-entropy; returns "" when converged.
func settle(w *treesim.World, variant string) (string, bool) {
	steps := 0
	flush := func() bool {
		for len(w.Net) > 0 {
			steps++
			if steps > 400 {
				return false
			}
			if p, what := vk.Recover(func() { w.Deliver(w.Take(0), -1) }); p {
				panic(what)
			}
		}
		return true
	}
	if variant == "drop" {
		w.Net = nil
	} else if !flush() {
		return "network does not drain (400 deliveries)", false
	}
	n := len(w.Replicas)
	for round := 0; round < n+1; round++ {
		for i := 0; i < n; i++ {
			for j := 0; j < n; j++ {
				if i == j {
					continue
				}
				w.SyncWithPeer(i, j)
				if !flush() {
					return "network does not drain during anti-entropy (400 deliveries)", false
				}
			}
		}
		if d := divergence(w); d == "" {
			return "", true
		}
	}
	return divergence(w), true
}

func divergence(w *treesim.World) string {
	var first treesim.View
	for i, r := range w.Replicas {
		v, err := r.View()
		if err != nil {
			return fmt.Sprintf("r%d: %v", i, err)
		}
		if i == 0 {
			first = v
			continue
		}
		if strings.Join(v.Heads, ",") != strings.Join(first.Heads, ",") {
			return fmt.Sprintf("heads differ: r0 %v vs r%d %v", first.Heads, i, v.Heads)
		}
		if strings.Join(v.StoredIds(), ",") != strings.Join(first.StoredIds(), ",") {
			return fmt.Sprintf("stored sets differ: r0 has %d, r%d has %d changes", len(first.Stored), i, len(v.Stored))
		}
	}
	return ""
}

func histStr(h []event) string {
	var s []string
	for _, e := range h {
		s = append(s, e.String())
	}
	return strings.Join(s, " ; ")
}

func TestCheck(t *testing.T) {
	logger.SetDefault(zap.NewNop())
	logger.SetNamedLevels(logger.LevelsFromStr("*=fatal"))
	vk.Main(t, vk.Spec{
		Prop:  "C01",
		Level: "model_checking",
		Rule: "explicit-state BFS over event histories of 2-3 real sync-tree replicas: edit / snapshot on any replica, deliver any in-flight message (head update, full-sync request, response stream), drop it, deliver a duplicate, cut a response stream after k batches, within per-kind budgets; " +
			"states = distinct canonical states (per replica: stored ids, live heads, recorded heads, in-memory root, #presented; multiset of in-flight messages; budgets used); from every distinct state both settle variants (drop all / flush all, then anti-entropy rounds over every ordered pair) are executed; " +
			"distinct_nontrivial = distinct states in which replicas differ (diverged heads or stored sets) or a replica has >= 2 heads",
		Assumptions: []string{
			"one account on all replicas (owner on several devices), derived space, unencrypted content; handler errors are 'no progress', never violations by themselves",
			"the search runs the real sync tree / object tree over an in-memory implementation of the storage interfaces; every state reached by a short history is rebuilt on real any-store databases and must be identical (the storage layer itself is C10's subject)",
			"anti-entropy = SyncWithPeer for every ordered pair with reliable FIFO delivery, at most N+1 rounds",
		},
		Shards: func(string) int { return 16 },
		Budget: func(tier string) time.Duration {
			if tier == "quick" {
				return 100 * time.Second
			}
			return 28 * time.Minute
		},
	}, body)
}

func body(c *vk.Ctx) {
	f, err := treesim.NewFixture(c.Seed)
	if err != nil {
		c.Broken("fixture: %v", err)
		return
	}
	if c.Replay != "" {
		replay(c, f)
		return
	}
	// the message-level state space is infinite (requests and counter-requests can ping-pong while responses are
	// delayed), so every configuration is explored exhaustively up to a depth bound
	cfgs := vk.Pick(c,
		[]config{
			{"2r-drop", 2, budget{Edits: 2, Snaps: 1, Drops: 1}, 9, 3},
			{"2r-dup-cut", 2, budget{Edits: 2, Snaps: 1, Dups: 1, Cuts: 1}, 7, 0},
			{"3r-nofault", 3, budget{Edits: 2, Snaps: 1}, 6, 2},
		},
		[]config{
			{"2r-drop", 2, budget{Edits: 3, Snaps: 2, Drops: 2}, 13, 4},
			{"2r-dup-cut", 2, budget{Edits: 3, Snaps: 1, Drops: 1, Dups: 1, Cuts: 1}, 10, 0},
			{"3r-drop", 3, budget{Edits: 3, Snaps: 1, Drops: 1}, 9, 3},
		})
	sawTwoHeads := false
	for i, cfg := range cfgs {
		c.Bound("config:"+cfg.Name, fmt.Sprintf("%+v depth<=%d", cfg.B, cfg.MaxDepth))
		// thorough: every configuration gets an equal share of the time that is left (a configuration that closes
		// early leaves its rest to the later ones); the quick bounds are sized to complete
		if c.Thorough() {
			c.Slice(len(cfgs) - i)
		}
		sawTwoHeads = search(c, f, cfg) || sawTwoHeads
		c.EndSlice()
	}
	if sawTwoHeads {
		c.Count("states_with_two_heads_seen_by_shards", 1)
	}
}

type node struct{ hist []event }

// search is a level-synchronous breadth-first search distributed over the shard processes: a state is owned by the
// shard its canonical hash maps to; after every level the shards exchange the states they found (vk.Exchange), so all
// of them hold the same seen set. (The pure-Go SQLite allocator serialises goroutines of one process, processes
// scale.)
func search(c *vk.Ctx, f *treesim.Fixture, cfg config) (sawTwoHeads bool) {
	seen := map[uint64]bool{}
	frontier := []node{}
	if c.Owns(0) {
		frontier = append(frontier, node{})
	}
	for depth := 0; ; depth++ {
		var found []vk.Item
		expanded := 0
		for _, n := range frontier {
			if c.TimeUp() {
				break
			}
			items, two := expand(c, f, cfg, n, seen)
			found = append(found, items...)
			sawTwoHeads = sawTwoHeads || two
			expanded++
		}
		timeUp := expanded < len(frontier)
		all, stop, ok := c.ExchangeOwned(fmt.Sprintf("%s-L%d", cfg.Name, depth), found, timeUp)
		if !ok {
			return
		}
		if stop {
			c.NotExhaustive(fmt.Sprintf("%s: deadline while expanding depth %d", cfg.Name, depth))
			return
		}
		frontier = frontier[:0]
		total := 0
		for _, it := range all {
			if seen[it.Key] {
				continue
			}
			seen[it.Key] = true
			total++
			if c.Owns(it.Key) {
				var h []event
				if err := json.Unmarshal(it.Data, &h); err != nil {
					c.Broken("exchange decode: %v", err)
					return
				}
				frontier = append(frontier, node{h})
			}
		}
		if c.Shard == 0 {
			c.Bound(fmt.Sprintf("%s:new_states_at_depth_%d", cfg.Name, depth+1), total)
		}
		if total == 0 {
			if c.Shard == 0 {
				c.Bound(cfg.Name+":closed", true)
			}
			return
		}
		if depth+1 >= cfg.MaxDepth {
			if c.Shard == 0 {
				c.Note("%s: depth bound %d reached with %d unexpanded states; everything up to the bound was enumerated", cfg.Name, cfg.MaxDepth, total)
			}
			return
		}
	}
}

// expand replays n once to list the enabled events, then builds every successor by replay + 1; successors whose
// canonical state was not known at the start of the level are judged (invariants + both settle variants) and returned.
func expand(c *vk.Ctx, f *treesim.Fixture, cfg config, n node, seen map[uint64]bool) (found []vk.Item, sawTwoHeads bool) {
	w, p := build(f, cfg, c.Scratch, n.hist)
	c.Count("executions", 1)
	if p != "" {
		w.Close()
		return
	}
	evs := enabled(w, cfg, n.hist)
	w.Close()
	local := map[uint64]bool{}
	for _, e := range evs {
		h := append(append([]event{}, n.hist...), e)
		w, _ := build(f, cfg, c.Scratch, n.hist)
		before := maxSeq(w)
		panicked, what := apply(w, e)
		c.Count("executions", 1)
		c.Count("transitions", 1)
		rep := func() any { return map[string]any{"config": cfg, "history": h, "log": w.Log} }
		if panicked {
			c.Violation("panic:"+vk.PanicSite(what), fmt.Sprintf("%s: [%s]: %s", cfg.Name, histStr(h), what), rep())
			w.Close()
			continue
		}
		canon, err := w.Canon()
		if err != nil {
			c.Violation("state-unreadable", fmt.Sprintf("%s: [%s]: %v", cfg.Name, histStr(h), err), rep())
			w.Close()
			continue
		}
		u := used(h)
		key := vk.HashStr(cfg.Name + "\n" + canon + fmt.Sprint(u))
		if seen[key] || local[key] {
			w.Close()
			continue
		}
		local[key] = true
		c.DistinctH("states", key)
		finds, views := invariants(w, before)
		for _, fd := range finds {
			c.Violation(fd.key, fmt.Sprintf("%s: after [%s]: %s", cfg.Name, histStr(h), fd.what), rep())
		}
		nontrivial := false
		for i, v := range views {
			if len(v.Heads) >= 2 {
				sawTwoHeads, nontrivial = true, true
			}
			if i > 0 && strings.Join(v.StoredIds(), ",") != strings.Join(views[0].StoredIds(), ",") {
				nontrivial = true
			}
		}
		if nontrivial {
			c.DistinctH("distinct", key)
		}
		if len(h) <= cfg.RealDepth {
			rw, rp := buildOn("anystore", f, cfg, c.Scratch, h)
			c.Count("executions", 1)
			c.Count("real_storage_replays", 1)
			if rp != "" {
				c.Violation("panic-on-real-storage:"+vk.PanicSite(rp), fmt.Sprintf("%s: [%s] on any-store: %s", cfg.Name, histStr(h), rp), rep())
			} else if rc, err := rw.Canon(); err != nil || rc != canon {
				c.Violation("real-storage-state-differs", fmt.Sprintf("%s: [%s]: canonical state on any-store differs from the in-memory storage run (err=%v)\nany-store:\n%s\nmemory:\n%s", cfg.Name, histStr(h), err, rc, canon), rep())
			}
			rw.Close()
		}
		if len(h) <= 4 && len(h) >= 3 {
			c.Sample(map[string]any{"config": cfg.Name, "history": histStr(h), "in_flight": len(w.Net)})
		}
		// settle variant "drop" on this instance, variant "flush" on a second replay
		for _, variant := range []string{"drop", "flush"} {
			sw := w
			if variant == "flush" {
				sw, _ = build(f, cfg, c.Scratch, h)
				c.Count("executions", 1)
			}
			var d string
			var drained bool
			if pp, pw := vk.Recover(func() { d, drained = settle(sw, variant) }); pp {
				c.Violation("panic-in-settle:"+vk.PanicSite(pw), fmt.Sprintf("%s: after [%s] settle(%s): %s", cfg.Name, histStr(h), variant, pw), rep())
			} else if !drained {
				c.Violation("network-never-drains", fmt.Sprintf("%s: after [%s] settle(%s): %s", cfg.Name, histStr(h), variant, d), rep())
			} else if d != "" {
				c.Violation("no-convergence:"+classify(d), fmt.Sprintf("%s: after [%s] and settle(%s): %s", cfg.Name, histStr(h), variant, d),
					map[string]any{"config": cfg, "history": h, "variant": variant, "log": sw.Log})
			}
			c.Count("settles", 1)
			sw.Close()
		}
		hb, _ := json.Marshal(h)
		found = append(found, vk.Item{Key: key, Data: hb})
	}
	return
}

func classify(d string) string {
	if strings.HasPrefix(d, "heads differ") {
		return "heads"
	}
	if strings.HasPrefix(d, "stored sets differ") {
		return "stored-sets"
	}
	return "other"
}

func replay(c *vk.Ctx, f *treesim.Fixture) {
	var rf struct {
		Case struct {
			Config  config  `json:"config"`
			History []event `json:"history"`
			Variant string  `json:"variant"`
		} `json:"case"`
	}
	if err := vk.ReadJSON(c.Replay, &rf); err != nil {
		c.Broken("replay file: %v", err)
		return
	}
	w, p := build(f, rf.Case.Config, c.Scratch, rf.Case.History)
	defer w.Close()
	c.Count("executions", 1)
	c.Count("transitions", int64(len(rf.Case.History)))
	c.DistinctH("states", 1)
	if p != "" {
		c.Violation("replayed:panic", p, rf.Case)
		return
	}
	finds, _ := invariants(w, 0)
	for _, fd := range finds {
		c.Violation("replayed:"+fd.key, fd.what, rf.Case)
	}
	for _, variant := range []string{"drop", "flush"} {
		if rf.Case.Variant != "" && rf.Case.Variant != variant {
			continue
		}
		sw, _ := build(f, rf.Case.Config, c.Scratch, rf.Case.History)
		d, drained := settle(sw, variant)
		if !drained || d != "" {
			c.Violation("replayed:no-convergence", fmt.Sprintf("settle(%s): %s", variant, d), rf.Case)
		}
		for _, l := range sw.Log {
			fmt.Println("  ", l)
		}
		sw.Close()
	}
}
