package c20

import (
	"os"
	"runtime/pprof"
)

func startProf() func() {
	p := os.Getenv("C20_PROF")
	if p == "" {
		return func() {}
	}
	f, _ := os.Create(p)
	pprof.StartCPUProfile(f)
	return func() { pprof.StopCPUProfile(); f.Close() }
}
