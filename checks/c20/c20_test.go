// C20 — Component container: ordered start, reverse-ordered stop, no use-before-init.
//
// Exhaustive enumeration on the real app.App. A case is a chain of containers (root, child, grandchild), each
// with a list of harness components (plain = app.Component, runnable = app.ComponentRunnable, optionally
// implementing a marker interface A or B), at most one injected failure (Init or Run of one component of the
// deepest container) and a set of runnable components whose Close returns an error. The containers are started
// root first; when every Start succeeded they are closed deepest first. Every harness component appends its
// Init / Run / Close calls to one call log and, from inside Init, looks every name of the case (and a missing
// one) up with Component / MustComponent and both marker interfaces with app.GetComponent / app.MustComponent.
//
// Oracle: a list-based reference model (function reference) that produces the expected call log, and a
// level-walking lookup (function resolveName / resolveMark). Only what the property states is demanded.
package c20

import (
	"context"
	"errors"
	"fmt"
	"strings"
	"sync"
	"sync/atomic"
	"testing"
	"testing/synctest"
	"time"

	"github.com/anyproto/any-sync/app"
	"github.com/anyproto/any-sync/commonspace"
	"github.com/anyproto/any-sync/app/logger"

	"verif/lib/vk"

	"go.uber.org/zap"
)

// ---------------------------------------------------------------------------------------------------
// case description (JSON: this is what a replay file stores)

type compSpec struct {
	Name     string `json:"name"`
	Runnable bool   `json:"runnable,omitempty"`
	Mark     string `json:"mark,omitempty"`      // "", "A" or "B": marker interface implemented
	CloseErr bool   `json:"close_err,omitempty"` // Close returns an error (runnable only)
	// Shape (plain components only): "closer" = the type also has a Close(ctx) error method, "runner" = it also has a
	// Run(ctx) error method; neither is a runnable component (that takes both), so the container may call neither
	Shape string `json:"shape,omitempty"`
}

type failSpec struct {
	Level int    `json:"level"`
	Idx   int    `json:"idx"`
	Phase string `json:"phase"` // "init" | "run"
}

type caseT struct {
	Levels [][]compSpec `json:"levels"` // Levels[0] = root container, Levels[1] = its child, ...
	Fail   *failSpec    `json:"fail,omitempty"`
	// ViaSpace: the deepest container is started the way a space starts its child container (commonspace space.Init);
	// the space may not add or repeat component calls
	ViaSpace bool `json:"via_space,omitempty"`
}

func (cs caseT) String() string {
	var sb strings.Builder
	for l, lv := range cs.Levels {
		if l > 0 {
			sb.WriteString(" > ")
		}
		sb.WriteString("[")
		for i, s := range lv {
			if i > 0 {
				sb.WriteString(" ")
			}
			sb.WriteString(s.Name)
			if s.Runnable {
				sb.WriteString(":R")
			} else {
				sb.WriteString(":P")
			}
			sb.WriteString(s.Mark)
			if s.Shape != "" {
				sb.WriteString("+" + s.Shape)
			}
			if s.CloseErr {
				sb.WriteString("!")
			}
		}
		sb.WriteString("]")
	}
	if cs.Fail != nil {
		fmt.Fprintf(&sb, " fail=%s(%d.%d)", cs.Fail.Phase, cs.Fail.Level, cs.Fail.Idx)
	}
	if cs.ViaSpace {
		sb.WriteString(" (deepest container started by space.Init)")
	}
	return sb.String()
}

// ---------------------------------------------------------------------------------------------------
// call log

type event struct {
	Level, Idx int
	Op         byte // 'I' init, 'R' run, 'C' close
}

func logStr(l []event) string {
	var sb strings.Builder
	for i, e := range l {
		if i > 0 {
			sb.WriteByte(' ')
		}
		fmt.Fprintf(&sb, "%c%d.%d", e.Op, e.Level, e.Idx)
	}
	return sb.String()
}

// ---------------------------------------------------------------------------------------------------
// reference model (boring on purpose)

type refResult struct {
	Log          []event
	FailedLevel  int // -1: every Start succeeds
	PrefixClosed int // number of components closed by the failing Start
}

func reference(cs caseT) refResult {
	r := refResult{FailedLevel: -1}
	started := 0
levels:
	for l, comps := range cs.Levels {
		closePrefix := func(i int) {
			for j := i; j >= 0; j-- {
				if comps[j].Runnable {
					r.Log = append(r.Log, event{l, j, 'C'})
					r.PrefixClosed++
				}
			}
			r.FailedLevel = l
		}
		for i := range comps {
			r.Log = append(r.Log, event{l, i, 'I'})
			if f := cs.Fail; f != nil && f.Level == l && f.Idx == i && f.Phase == "init" {
				closePrefix(i)
				break levels
			}
		}
		for i := range comps {
			if !comps[i].Runnable {
				continue
			}
			r.Log = append(r.Log, event{l, i, 'R'})
			if f := cs.Fail; f != nil && f.Level == l && f.Idx == i && f.Phase == "run" {
				closePrefix(i)
				break levels
			}
		}
		started++
	}
	for l := started - 1; l >= 0; l-- {
		for j := len(cs.Levels[l]) - 1; j >= 0; j-- {
			if cs.Levels[l][j].Runnable {
				r.Log = append(r.Log, event{l, j, 'C'})
			}
		}
	}
	return r
}

// resolveName: local first, then through the parents. Returns level -1 when not registered anywhere.
func resolveName(cs caseT, from int, name string) (level, idx int) {
	for l := from; l >= 0; l-- {
		for i, s := range cs.Levels[l] {
			if s.Name == name {
				return l, i
			}
		}
	}
	return -1, -1
}

// resolveMark: the nearest level (local first) holding a component that implements the marker interface.
func resolveMark(cs caseT, from int, mark string) (level int) {
	for l := from; l >= 0; l-- {
		for _, s := range cs.Levels[l] {
			if s.Mark == mark {
				return l
			}
		}
	}
	return -1
}

func relName(from, level int) string {
	if level < 0 {
		return "none"
	}
	switch from - level {
	case 0:
		return "local"
	case 1:
		return "parent"
	case 2:
		return "grandparent"
	}
	if level > from {
		return "descendant"
	}
	return fmt.Sprintf("ancestor%d", from-level)
}

// ---------------------------------------------------------------------------------------------------
// harness components

type markA interface {
	app.Component
	MarkA() *base
}

type markB interface {
	app.Component
	MarkB() *base
}

type harnessComp interface {
	app.Component
	Base() *base
}

type base struct {
	h          *harness
	level, idx int
	spec       compSpec
}

func (b *base) Base() *base           { return b }
func (b *base) Name() string          { return b.spec.Name }
func (b *base) Init(a *app.App) error { return b.h.onInit(b, a) }

type runPart struct{ base }

func (r *runPart) Run(ctx context.Context) error   { return r.h.onRun(&r.base) }
func (r *runPart) Close(ctx context.Context) error { return r.h.onClose(&r.base) }

type (
	plainC  struct{ base }
	plainCA struct{ base }
	plainCB struct{ base }
	runC    struct{ runPart }
	runCA   struct{ runPart }
	runCB   struct{ runPart }
)

// plain components that happen to have one of the two methods of a runnable component
type (
	plainCloser struct{ base }
	plainRunner struct{ base }
)

func (c *plainCloser) Close(ctx context.Context) error { return c.h.onClose(&c.base) }
func (c *plainRunner) Run(ctx context.Context) error   { return c.h.onRun(&c.base) }

func (c *plainCA) MarkA() *base { return &c.base }
func (c *plainCB) MarkB() *base { return &c.base }
func (c *runCA) MarkA() *base   { return &c.base }
func (c *runCB) MarkB() *base   { return &c.base }

func newComp(b base) harnessComp {
	switch {
	case !b.spec.Runnable && b.spec.Shape == "closer":
		return &plainCloser{b}
	case !b.spec.Runnable && b.spec.Shape == "runner":
		return &plainRunner{b}
	case !b.spec.Runnable && b.spec.Mark == "":
		return &plainC{b}
	case !b.spec.Runnable && b.spec.Mark == "A":
		return &plainCA{b}
	case !b.spec.Runnable && b.spec.Mark == "B":
		return &plainCB{b}
	case b.spec.Runnable && b.spec.Mark == "":
		return &runC{runPart{b}}
	case b.spec.Runnable && b.spec.Mark == "A":
		return &runCA{runPart{b}}
	case b.spec.Runnable && b.spec.Mark == "B":
		return &runCB{runPart{b}}
	}
	panic("bad component spec " + fmt.Sprint(b.spec))
}

// ---------------------------------------------------------------------------------------------------
// execution of one case on the real container

type lookupIssue struct{ key, what string }

type lookupStats struct {
	nameLocalShadowing, nameViaParent, nameParentShadowingGrand, nameViaGrand, nameMissing int64
	markLocalShadowing, markViaParent, markParentShadowingGrand, markViaGrand, markMissing int64
	lookups                                                                                int64
}

type harness struct {
	cs      caseT
	injErr  error
	comps   [][]harnessComp
	log     []event
	issues  []lookupIssue
	names   []string
	ls      lookupStats
	nStart  int
	nClose  int
	started int
}

type observation struct {
	Log       []event
	StartErrs []error
	CloseErrs []error
	Issues    []lookupIssue
	Panic     string
}

func (h *harness) onInit(b *base, a *app.App) error {
	h.log = append(h.log, event{b.level, b.idx, 'I'})
	h.lookups(b, a)
	if f := h.cs.Fail; f != nil && f.Phase == "init" && f.Level == b.level && f.Idx == b.idx {
		return h.injErr
	}
	return nil
}

func (h *harness) onRun(b *base) error {
	h.log = append(h.log, event{b.level, b.idx, 'R'})
	if f := h.cs.Fail; f != nil && f.Phase == "run" && f.Level == b.level && f.Idx == b.idx {
		return h.injErr
	}
	return nil
}

func (h *harness) onClose(b *base) error {
	h.log = append(h.log, event{b.level, b.idx, 'C'})
	if b.spec.CloseErr {
		return fmt.Errorf("verif-close-error-%d.%d", b.level, b.idx)
	}
	return nil
}

func (h *harness) issue(key, format string, a ...any) {
	if len(h.issues) < 4 {
		h.issues = append(h.issues, lookupIssue{key, fmt.Sprintf(format, a...)})
	}
}

// describe says where a component returned by the container lives relative to the asking level.
func (h *harness) describe(from int, got app.Component) (level, idx int, rel string) {
	if got == nil {
		return -1, -1, "none"
	}
	hc, ok := got.(harnessComp)
	if !ok || hc.Base().h != h {
		return -2, -2, "foreign"
	}
	b := hc.Base()
	return b.level, b.idx, relName(from, b.level)
}

// lookups is what a component does from inside its Init: resolve every name and marker interface through the
// container it was handed.
func (h *harness) lookups(b *base, a *app.App) {
	from := b.level
	for _, name := range h.names {
		wl, wi := resolveName(h.cs, from, name)
		h.ls.lookups++
		if wl < 0 {
			h.ls.nameMissing++
		} else {
			shadows := false
			if wl > 0 {
				sl, _ := resolveName(h.cs, wl-1, name)
				shadows = sl >= 0
			}
			switch {
			case wl == from && shadows:
				h.ls.nameLocalShadowing++
			case wl == from-1 && shadows:
				h.ls.nameParentShadowingGrand++
			case wl == from-1:
				h.ls.nameViaParent++
			case wl == from-2:
				h.ls.nameViaGrand++
			}
		}
		check := func(api string, got app.Component, panicked bool) {
			if wl < 0 {
				// not registered anywhere: nothing may be resolved (whether MustComponent panics is not the property's business)
				if got != nil {
					_, _, rel := h.describe(from, got)
					h.issue(fmt.Sprintf("lookup %s(name): want none got %s", api, rel),
						"%s(%q) from Init of %d.%d returned a component although the name is registered nowhere", api, name, b.level, b.idx)
				}
				return
			}
			if panicked {
				h.issue(fmt.Sprintf("lookup %s(name): want %s got panic", api, relName(from, wl)),
					"%s(%q) from Init of %d.%d panicked although the name is registered at level %d", api, name, b.level, b.idx, wl)
				return
			}
			gl, gi, rel := h.describe(from, got)
			if gl != wl || gi != wi || got != app.Component(h.comps[wl][wi]) {
				if gl == wl && rel != "none" {
					rel += "-wrong-instance"
				}
				h.issue(fmt.Sprintf("lookup %s(name): want %s got %s", api, relName(from, wl), rel),
					"%s(%q) from Init of component %d.%d resolved to %d.%d, want %d.%d (local first, then parents)", api, name, b.level, b.idx, gl, gi, wl, wi)
			}
		}
		check("Component", a.Component(name), false)
		var got app.Component
		p := panics(func() { got = a.MustComponent(name) })
		check("MustComponent", got, p)
	}
	h.markLookup(b, a, "A")
	h.markLookup(b, a, "B")
}

func (h *harness) markLookup(b *base, a *app.App, mark string) {
	from := b.level
	wl := resolveMark(h.cs, from, mark)
	h.ls.lookups++
	if wl < 0 {
		h.ls.markMissing++
	} else {
		shadows := wl > 0 && resolveMark(h.cs, wl-1, mark) >= 0
		switch {
		case wl == from && shadows:
			h.ls.markLocalShadowing++
		case wl == from-1 && shadows:
			h.ls.markParentShadowingGrand++
		case wl == from-1:
			h.ls.markViaParent++
		case wl == from-2:
			h.ls.markViaGrand++
		}
	}
	get := func() (app.Component, error) {
		if mark == "A" {
			v, err := app.GetComponent[markA](a)
			if v == nil {
				return nil, err
			}
			return v, err
		}
		v, err := app.GetComponent[markB](a)
		if v == nil {
			return nil, err
		}
		return v, err
	}
	must := func() app.Component {
		if mark == "A" {
			return app.MustComponent[markA](a)
		}
		return app.MustComponent[markB](a)
	}
	check := func(api string, got app.Component, failed bool) {
		if wl < 0 {
			if got != nil && !failed {
				_, _, rel := h.describe(from, got)
				h.issue(fmt.Sprintf("lookup %s[T]: want none got %s", api, rel),
					"%s[mark%s] from Init of %d.%d returned a component although no container in the chain holds one", api, mark, b.level, b.idx)
			}
			return
		}
		if failed || got == nil {
			h.issue(fmt.Sprintf("lookup %s[T]: want %s got not-found", api, relName(from, wl)),
				"%s[mark%s] from Init of %d.%d found nothing although level %d holds such a component", api, mark, b.level, b.idx, wl)
			return
		}
		// several components of one level may implement T; the property only fixes the level
		gl, gi, rel := h.describe(from, got)
		if gl != wl {
			h.issue(fmt.Sprintf("lookup %s[T]: want %s got %s", api, relName(from, wl), rel),
				"%s[mark%s] from Init of component %d.%d resolved to %d.%d, want a component of level %d (local first, then parents)", api, mark, b.level, b.idx, gl, gi, wl)
		} else if h.cs.Levels[gl][gi].Mark != mark {
			h.issue(fmt.Sprintf("lookup %s[T]: wrong type", api), "%s[mark%s] returned %d.%d which does not implement it", api, mark, gl, gi)
		}
	}
	v, err := get()
	check("GetComponent", v, err != nil)
	var got app.Component
	p := panics(func() { got = must() })
	check("MustComponent", got, p)
}

// panics is a cheap recover (vk.Recover formats a stack; MustComponent panics by design on unknown names).
func panics(f func()) (p bool) {
	defer func() {
		if recover() != nil {
			p = true
		}
	}()
	f()
	return
}

func runCase(cs caseT) (observation, *harness) {
	h := &harness{cs: cs}
	if cs.Fail != nil {
		h.injErr = fmt.Errorf("verif-injected-%s-failure-%d.%d", cs.Fail.Phase, cs.Fail.Level, cs.Fail.Idx)
	}
	seen := map[string]bool{}
	for _, lv := range cs.Levels {
		for _, s := range lv {
			if !seen[s.Name] {
				seen[s.Name] = true
				h.names = append(h.names, s.Name)
			}
		}
	}
	h.names = append(h.names, "never-registered")
	var obs observation
	ctx := context.Background()
	panicked, what := vk.Recover(func() {
		var apps []*app.App
		var parent *app.App
		for l, lv := range cs.Levels {
			var a *app.App
			if l == 0 {
				a = new(app.App)
			} else {
				a = parent.ChildApp()
			}
			row := make([]harnessComp, len(lv))
			for i, s := range lv {
				row[i] = newComp(base{h: h, level: l, idx: i, spec: s})
			}
			h.comps = append(h.comps, row)
			for _, comp := range row {
				a.Register(comp)
			}
			var err error
			if cs.ViaSpace && l > 0 && l == len(cs.Levels)-1 {
				err, _ = commonspace.VerifSpaceInit(ctx, a)
			} else {
				err = a.Start(ctx)
			}
			h.nStart++
			obs.StartErrs = append(obs.StartErrs, err)
			if err != nil {
				break
			}
			apps = append(apps, a)
			parent = a
		}
		h.started = len(apps)
		for l := len(apps) - 1; l >= 0; l-- {
			obs.CloseErrs = append(obs.CloseErrs, apps[l].Close(ctx))
			h.nClose++
		}
	})
	if panicked {
		obs.Panic = what
	}
	obs.Log = h.log
	obs.Issues = h.issues
	return obs, h
}

// ---------------------------------------------------------------------------------------------------
// verdict for one case: ("" , "") when the property holds

func judge(cs caseT, obs observation, ref refResult) (key, what string) {
	if obs.Panic != "" {
		return "panic in container: " + obs.Panic, fmt.Sprintf("case %s: %s", cs, obs.Panic)
	}
	// Start's result
	for l, err := range obs.StartErrs {
		failing := cs.Fail != nil && cs.Fail.Level == l
		switch {
		case failing && err == nil:
			return "start-failure-not-reported (" + cs.Fail.Phase + ")",
				fmt.Sprintf("case %s: %s of component %d.%d failed but Start returned nil", cs, cs.Fail.Phase, l, cs.Fail.Idx)
		case failing && !strings.Contains(err.Error(), mustErr(cs).Error()) && !errors.Is(err, mustErr(cs)):
			return "start-error-does-not-carry-injected-error (" + cs.Fail.Phase + ")",
				fmt.Sprintf("case %s: Start returned %q which neither wraps nor contains the injected error", cs, err)
		case !failing && err != nil:
			return "start-error-without-failure", fmt.Sprintf("case %s: Start of level %d returned %q although no component failed", cs, l, err)
		}
	}
	if len(obs.Issues) > 0 {
		return obs.Issues[0].key, fmt.Sprintf("case %s: %s", cs, obs.Issues[0].what)
	}
	if eqLog(obs.Log, ref.Log) {
		return "", ""
	}
	detail := fmt.Sprintf("case %s: call log [%s], reference [%s]", cs, logStr(obs.Log), logStr(ref.Log))
	return classify(cs, obs.Log, ref) + failSuffix(cs), detail
}

func mustErr(cs caseT) error {
	return fmt.Errorf("verif-injected-%s-failure-%d.%d", cs.Fail.Phase, cs.Fail.Level, cs.Fail.Idx)
}

func failSuffix(cs caseT) string {
	if cs.Fail == nil {
		return " (no failure)"
	}
	return " (" + cs.Fail.Phase + " failure)"
}

func eqLog(a, b []event) bool {
	if len(a) != len(b) {
		return false
	}
	for i := range a {
		if a[i] != b[i] {
			return false
		}
	}
	return true
}

// classify names the first property clause the observed log breaks (stable violation keys).
func classify(cs caseT, got []event, ref refResult) string {
	// 1. no Run before every component of that container was initialised
	inits := map[int]int{}
	for _, e := range got {
		switch e.Op {
		case 'I':
			inits[e.Level]++
		case 'R':
			if inits[e.Level] < len(cs.Levels[e.Level]) {
				return "run-before-all-inits"
			}
		}
	}
	// 2. Init / Run in registration order, Close in reverse order, nothing twice
	last := map[[2]int]int{} // (level, op) -> last idx
	for _, e := range got {
		k := [2]int{e.Level, int(e.Op)}
		prev, seen := last[k]
		last[k] = e.Idx
		if !seen {
			continue
		}
		switch {
		case prev == e.Idx:
			return map[byte]string{'I': "init-twice", 'R': "run-twice", 'C': "closed-twice"}[e.Op]
		case e.Op == 'C' && e.Idx > prev:
			return "close-not-in-reverse-order"
		case e.Op == 'I' && e.Idx < prev:
			return "init-not-in-registration-order"
		case e.Op == 'R' && e.Idx < prev:
			return "run-not-in-registration-order"
		}
	}
	// 3. nothing is initialised or run after the failing call
	if f := cs.Fail; f != nil {
		after := false
		for _, e := range got {
			if after && e.Op != 'C' {
				return "continues-after-failure"
			}
			if e.Level == f.Level && e.Idx == f.Idx && ((f.Phase == "init" && e.Op == 'I') || (f.Phase == "run" && e.Op == 'R')) {
				after = true
			}
		}
	}
	// 4. sets: who was initialised / run / closed
	set := func(l []event, op byte) map[[2]int]bool {
		m := map[[2]int]bool{}
		for _, e := range l {
			if e.Op == op {
				m[[2]int{e.Level, e.Idx}] = true
			}
		}
		return m
	}
	for _, op := range []byte{'I', 'R', 'C'} {
		g, w := set(got, op), set(ref.Log, op)
		name := map[byte]string{'I': "initialised", 'R': "run", 'C': "closed"}[op]
		for k := range w {
			if !g[k] {
				if op == 'C' && ref.FailedLevel == k[0] {
					return "runnable-of-failed-prefix-not-closed"
				}
				return "component-not-" + name
			}
		}
		for k := range g {
			if !w[k] {
				if op == 'C' && ref.FailedLevel == k[0] {
					return "closed-outside-failed-prefix"
				}
				return "unexpected-component-" + name
			}
		}
	}
	return "call-log-differs-from-reference"
}

// ---------------------------------------------------------------------------------------------------
// enumeration

type tallies struct {
	initFailClosed2, runFailClosed2, closeErrAllClosed, nestedFailures atomic.Int64
	evals, execs, calls                                                *atomic.Int64
	mu                                                                 sync.Mutex
	ls                                                                 lookupStats
}

// worker is the goroutine-local part of the bookkeeping.
type worker struct {
	ls   lookupStats
	seen map[string]bool
}

func newWorker() *worker { return &worker{seen: map[string]bool{}} }

func (t *tallies) addLookups(s lookupStats) {
	t.mu.Lock()
	defer t.mu.Unlock()
	t.ls.nameLocalShadowing += s.nameLocalShadowing
	t.ls.nameViaParent += s.nameViaParent
	t.ls.nameParentShadowingGrand += s.nameParentShadowingGrand
	t.ls.nameViaGrand += s.nameViaGrand
	t.ls.nameMissing += s.nameMissing
	t.ls.markLocalShadowing += s.markLocalShadowing
	t.ls.markViaParent += s.markViaParent
	t.ls.markParentShadowingGrand += s.markParentShadowingGrand
	t.ls.markViaGrand += s.markViaGrand
	t.ls.markMissing += s.markMissing
	t.ls.lookups += s.lookups
}

// one executes a case, compares with the reference and reports. Returns the observed log string.
func one(c *vk.Ctx, t *tallies, cs caseT, w *worker) (ok bool) {
	ref := reference(cs)
	obs, h := runCase(cs)
	t.evals.Add(1)
	t.execs.Add(int64(h.nStart + h.nClose))
	t.calls.Add(int64(len(obs.Log)))
	if ls := logStr(obs.Log); !w.seen[ls] { // worker-local filter in front of the shared set
		w.seen[ls] = true
		c.Distinct("distinct", ls)
	}
	addStats(&w.ls, h.ls)
	key, what := judge(cs, obs, ref)
	if key != "" {
		c.Violation(key, what, cs)
		return false
	}
	// vacuity tallies (only for cases that agree with the reference)
	if f := cs.Fail; f != nil {
		if ref.PrefixClosed >= 2 {
			if f.Phase == "init" {
				t.initFailClosed2.Add(1)
			} else {
				t.runFailClosed2.Add(1)
			}
		}
		if len(cs.Levels) > 1 {
			t.nestedFailures.Add(1)
		}
	} else {
		nErr, nRun := 0, 0
		for _, lv := range cs.Levels {
			for _, s := range lv {
				if s.Runnable {
					nRun++
					if s.CloseErr {
						nErr++
					}
				}
			}
		}
		if nErr >= 1 && nRun >= 2 {
			t.closeErrAllClosed.Add(1)
		}
	}
	return true
}

func addStats(dst *lookupStats, s lookupStats) {
	dst.nameLocalShadowing += s.nameLocalShadowing
	dst.nameViaParent += s.nameViaParent
	dst.nameParentShadowingGrand += s.nameParentShadowingGrand
	dst.nameViaGrand += s.nameViaGrand
	dst.nameMissing += s.nameMissing
	dst.markLocalShadowing += s.markLocalShadowing
	dst.markViaParent += s.markViaParent
	dst.markParentShadowingGrand += s.markParentShadowingGrand
	dst.markViaGrand += s.markViaGrand
	dst.markMissing += s.markMissing
	dst.lookups += s.lookups
}

// failPoints: every single failure point of the deepest container (nil = none).
func failPoints(level int, comps []compSpec) []*failSpec {
	out := []*failSpec{nil}
	for i := range comps {
		out = append(out, &failSpec{Level: level, Idx: i, Phase: "init"})
	}
	for i, s := range comps {
		if s.Runnable {
			out = append(out, &failSpec{Level: level, Idx: i, Phase: "run"})
		}
	}
	return out
}

// flatCases: part A — one container, n components c0..c(n-1), every plain/runnable mix, every failure point,
// every subset of runnable components whose Close returns an error.
func flatCases(n int, emit func(caseT)) {
	for kinds := 0; kinds < 1<<n; kinds++ {
		var runnable []int
		for i := 0; i < n; i++ {
			if kinds&(1<<i) != 0 {
				runnable = append(runnable, i)
			}
		}
		for ce := 0; ce < 1<<len(runnable); ce++ {
			comps := make([]compSpec, n)
			for i := range comps {
				comps[i] = compSpec{Name: fmt.Sprintf("c%d", i), Runnable: kinds&(1<<i) != 0}
			}
			for k, i := range runnable {
				comps[i].CloseErr = ce&(1<<k) != 0
			}
			for _, f := range failPoints(0, comps) {
				emit(caseT{Levels: [][]compSpec{comps}, Fail: f})
			}
		}
	}
}

// shapedCases: part A2 — one container, n components of kind plain | runnable | plain with a Close method | plain with
// a Run method (at least one of the last two, the rest is part A), every failure point.
func shapedCases(n int, emit func(caseT)) {
	total := 1
	for i := 0; i < n; i++ {
		total *= 4
	}
	for code := 0; code < total; code++ {
		comps := make([]compSpec, n)
		shaped := false
		for i, k := 0, code; i < n; i, k = i+1, k/4 {
			comps[i] = compSpec{Name: fmt.Sprintf("c%d", i)}
			switch k % 4 {
			case 1:
				comps[i].Runnable = true
			case 2:
				comps[i].Shape, shaped = "closer", true
			case 3:
				comps[i].Shape, shaped = "runner", true
			}
		}
		if !shaped {
			continue
		}
		for _, f := range failPoints(0, comps) {
			emit(caseT{Levels: [][]compSpec{comps}, Fail: f})
		}
	}
}

// levelLists: every ordered list of at most max components with distinct names from names, every kind and mark.
func levelLists(names, marks []string, max int) [][]compSpec {
	var out [][]compSpec
	var rec func(cur []compSpec)
	rec = func(cur []compSpec) {
		out = append(out, append([]compSpec{}, cur...))
		if len(cur) == max {
			return
		}
	next:
		for _, n := range names {
			for _, s := range cur {
				if s.Name == n {
					continue next
				}
			}
			for _, r := range []bool{false, true} {
				for _, m := range marks {
					rec(append(cur, compSpec{Name: n, Runnable: r, Mark: m}))
				}
			}
		}
	}
	rec(nil)
	return out
}

var theT *testing.T

// bubble runs f under the fake clock of testing/synctest: no timer of the container can fire while a case runs
// (fake time only advances when every goroutine is blocked), and the watchdog goroutine a failed Start leaves
// behind is drained (its timer fires in fake time) when the batch ends instead of piling up.
func bubble(f func()) {
	synctest.Test(theT, func(*testing.T) {
		f()
		// fake time stops with the bubble's main goroutine: let the start watchdogs of failed Starts expire first
		time.Sleep(app.StartWarningAfter + time.Second)
		synctest.Wait()
	})
}

func TestCheck(t *testing.T) {
	theT = t
	vk.Main(t, vk.Spec{
		Prop:  "C20",
		Level: "exploration",
		Rule: "exhaustive: (A) one real app.App with every list of 0..N components (quick N=4, thorough N=5), every plain/runnable mix, " +
			"every single failure point {none, Init of i, Run of runnable i} and every subset of runnable components whose Close returns an error; " +
			"(A2) the same with lists of 1..N-1 components of kind plain | runnable | plain that also has a Close(ctx) method | plain that also has a Run(ctx) method (neither is runnable: no Run, no Close expected); " +
			"(B) every chain root>child and root>child>grandchild (ChildApp) whose containers hold every ordered list of <=K components (depth 1: K=3 thorough / 2 quick, depth 2: K=2) " +
			"with names from {x,y,z} / {x,y} (shadowing across levels), kind plain|runnable and marker interface none|A|B (quick: none|A), " +
			"with every single failure point of the deepest container; every component looks up every name (plus an unregistered one) by Component/MustComponent " +
			"and both marker interfaces by GetComponent[T]/MustComponent[T] from inside its Init. evaluations = cases; executions = Start/Close calls on the real container; " +
			"distinct = distinct observed call logs (Init/Run/Close per level.index)",
		Assumptions: []string{
			"components return immediately; every batch of cases runs inside a testing/synctest bubble (fake clock) and app.StartWarningAfter/StopWarningAfter/StopDeadline are raised, so no timer of the container fires while a case runs (no wall-clock dependence)",
			"containers are started root first and closed deepest first; Close is only called on containers whose Start succeeded",
			"for by-type lookups the property fixes the level that answers (local first, then parents), not which of several matching components of one level",
			"the return value of Close is not constrained by the property and is not checked",
		},
		Budget: func(tier string) time.Duration {
			if tier == "quick" {
				return 50 * time.Second
			}
			return 20 * time.Minute
		},
	}, body)
}

func silence() {
	// no log output, no container timers
	logger.SetDefault(zap.NewNop())
	logger.SetNamedLevels(nil) // rebuilds the named loggers (app) on the no-op core
	app.StartWarningAfter = 100000 * time.Hour
	app.StopWarningAfter = 200000 * time.Hour
	app.StopDeadline = 200000 * time.Hour
}

func body(c *vk.Ctx) {
	silence()
	if c.Replay != "" {
		replay(c)
		return
	}
	maxFlat := vk.Pick(c, 4, 5)
	c.Bound("max_components_flat", maxFlat)
	t := &tallies{evals: c.Counter("evaluations"), execs: c.Counter("executions"), calls: c.Counter("component_calls")}

	// ---- part A (serial, small): one bubble per list length
	wA := newWorker()
	flatN := 0
	for n := 0; n <= maxFlat; n++ {
		bubble(func() {
			flatCases(n, func(cs caseT) {
				flatN++
				one(c, t, cs, wA)
				if cs.Fail != nil && n == 3 && cs.Levels[0][0].Runnable && cs.Levels[0][1].Runnable && !cs.Levels[0][2].Runnable &&
					cs.Fail.Idx == 2 && cs.Fail.Phase == "init" && !cs.Levels[0][0].CloseErr && !cs.Levels[0][1].CloseErr {
					obs, _ := runCase(cs)
					c.Sample(map[string]any{"case": cs.String(), "call_log": logStr(obs.Log), "start_error": fmt.Sprint(obs.StartErrs[0])})
				}
				if cs.Fail == nil && n == 4 && cs.String() == "[c0:R c1:P c2:R! c3:R]" {
					obs, _ := runCase(cs)
					c.Sample(map[string]any{"case": cs.String(), "call_log": logStr(obs.Log), "close_error": fmt.Sprint(obs.CloseErrs[0])})
				}
			})
		})
	}
	shapedN := 0
	for n := 1; n <= maxFlat-1; n++ {
		bubble(func() {
			shapedCases(n, func(cs caseT) {
				shapedN++
				one(c, t, cs, wA)
			})
		})
	}
	t.addLookups(wA.ls)
	c.Bound("flat_cases", flatN)
	c.Bound("flat_cases_with_half_runnable_shapes", shapedN)

	// ---- part B (nested containers), parallel over the root container's list; a batch = one bubble
	marks := vk.Pick(c, []string{"", "A"}, []string{"", "A", "B"})
	lists2 := levelLists([]string{"x", "y"}, marks, 2)
	lists3 := lists2
	if c.Thorough() {
		lists3 = levelLists([]string{"x", "y", "z"}, marks, 3)
	}
	c.Bound("lists_per_level_depth2", len(lists2))
	c.Bound("lists_per_level_depth1", len(lists3))
	var wg sync.WaitGroup
	sem := make(chan struct{}, 16)
	var completed atomic.Bool
	completed.Store(true)
	unit := func(u, nBatches int, batch func(b int, emit func(levels [][]compSpec))) {
		wg.Add(1)
		sem <- struct{}{}
		go func() {
			defer wg.Done()
			defer func() { <-sem }()
			w := newWorker()
			k := 0
			emit := func(levels [][]compSpec) {
				deepest := len(levels) - 1
				for _, f := range failPoints(deepest, levels[deepest]) {
					cs := caseT{Levels: levels, Fail: f}
					one(c, t, cs, w)
					k++
					if f != nil && len(levels) == 2 {
						// the same failing start through space.Init (depth-1 nestings: a space is a child of the app)
						vs := cs
						vs.ViaSpace = true
						one(c, t, vs, w)
						k++
					}
					if len(levels) == 3 && u == len(lists2)-1 && (k == 2000 || k == 4001) {
						obs, _ := runCase(cs)
						c.Sample(map[string]any{"case": cs.String(), "call_log": logStr(obs.Log)})
					}
				}
			}
			for b := 0; b < nBatches; b++ {
				if c.TimeUp() { // real clock: outside the bubble
					completed.Store(false)
					break
				}
				bubble(func() { batch(b, emit) })
			}
			t.addLookups(w.ls)
		}()
	}
	// depth 1: root > child
	const chunk = 256
	for u, root := range lists3 {
		root := root
		unit(u, (len(lists3)+chunk-1)/chunk, func(b int, emit func([][]compSpec)) {
			for i := b * chunk; i < (b+1)*chunk && i < len(lists3); i++ {
				emit([][]compSpec{root, lists3[i]})
			}
		})
	}
	// depth 2: root > child > grandchild
	for u, root := range lists2 {
		root := root
		unit(u, len(lists2), func(b int, emit func([][]compSpec)) {
			for _, grand := range lists2 {
				emit([][]compSpec{root, lists2[b], grand})
			}
		})
	}
	wg.Wait()
	c.Bound("nested_cases", t.evals.Load()-int64(flatN))
	c.Bound("lookups_checked", t.ls.lookups)
	if !completed.Load() {
		c.NotExhaustive("deadline hit during the nested-container enumeration")
		return
	}

	// ---- vacuity guards (meaningful only when nothing was flagged: tallies count agreeing cases)
	if c.NViolations() == 0 {
		c.Require(t.initFailClosed2.Load() > 0, "vacuity: no init failure closed >= 2 runnable components in reverse order")
		c.Require(t.runFailClosed2.Load() > 0, "vacuity: no run failure closed >= 2 runnable components in reverse order")
		c.Require(t.closeErrAllClosed.Load() > 0, "vacuity: no full Close with a failing Close among >= 2 runnable components")
		c.Require(t.nestedFailures.Load() > 0, "vacuity: no failure inside a child container")
		c.Require(t.ls.nameLocalShadowing > 0, "vacuity: no shadowed name resolved to the child's own component")
		c.Require(t.ls.nameViaParent > 0, "vacuity: no name resolved through the parent")
		c.Require(t.ls.nameParentShadowingGrand > 0, "vacuity: no name resolved to the parent while the grandparent also holds it")
		c.Require(t.ls.nameViaGrand > 0, "vacuity: no name resolved through the grandparent")
		c.Require(t.ls.nameMissing > 0, "vacuity: no lookup of an unregistered name")
		c.Require(t.ls.markLocalShadowing > 0 && t.ls.markViaParent > 0 && t.ls.markParentShadowingGrand > 0 && t.ls.markViaGrand > 0 && t.ls.markMissing > 0,
			"vacuity: by-type lookups did not cover local/parent/grandparent/missing: %+v", t.ls)
	}
	c.Note("lookups: name local-while-shadowing=%d via-parent=%d parent-while-grandparent-has-it=%d via-grandparent=%d missing=%d; "+
		"type local-while-shadowing=%d via-parent=%d parent-while-grandparent-has-it=%d via-grandparent=%d missing=%d",
		t.ls.nameLocalShadowing, t.ls.nameViaParent, t.ls.nameParentShadowingGrand, t.ls.nameViaGrand, t.ls.nameMissing,
		t.ls.markLocalShadowing, t.ls.markViaParent, t.ls.markParentShadowingGrand, t.ls.markViaGrand, t.ls.markMissing)
	c.Note("failure cases closing >=2 runnable components of the prefix: init=%d run=%d; full Close with Close errors=%d; failures in child containers=%d",
		t.initFailClosed2.Load(), t.runFailClosed2.Load(), t.closeErrAllClosed.Load(), t.nestedFailures.Load())
}

func replay(c *vk.Ctx) {
	var rf struct {
		Case caseT `json:"case"`
	}
	if err := vk.ReadJSON(c.Replay, &rf); err != nil {
		c.Broken("replay file: %v", err)
		return
	}
	cs := rf.Case
	if len(cs.Levels) == 0 {
		c.Broken("replay file holds no case")
		return
	}
	ref := reference(cs)
	var obs observation
	var h *harness
	bubble(func() { obs, h = runCase(cs) })
	c.Count("evaluations", 1)
	c.Count("executions", int64(h.nStart+h.nClose))
	c.Distinct("distinct", logStr(obs.Log))
	fmt.Printf("replay: case %s\n  observed  [%s]\n  reference [%s]\n", cs, logStr(obs.Log), logStr(ref.Log))
	if key, what := judge(cs, obs, ref); key != "" {
		c.Violation(key, what, cs)
		return
	}
	fmt.Println("replay: case no longer violates the property")
}
