// C19 — outbound messaging is bounded and isolated: a stuck peer blocks nobody.
//
// Engine C on the real net/streampool (sync and sync/atomic imports re-pointed to the shims by overlay): fake
// drpc streams of four kinds (healthy, slow, blocked forever, failing) are registered in a real pool; 2–4
// concurrent Send / SendById / Broadcast / tag / peer-close / AddStream operations are scheduled at every pool
// mutex acquisition, every stream.closed atomic operation and every MsgSend of a slow / failing stream. The
// blocked stream's MsgSend is never released during the explored phase, so any caller that waits on it shows up
// as a deadlock.
package c19

import (
	"context"
	"errors"
	"fmt"
	"io"
	"sort"
	"strings"
	"sync"
	"testing"
	"time"

	"go.uber.org/zap"
	"go.uber.org/zap/zapcore"
	"storj.io/drpc"

	"github.com/anyproto/any-sync/app"
	"github.com/anyproto/any-sync/app/logger"
	"github.com/anyproto/any-sync/net/peer"
	"github.com/anyproto/any-sync/net/streampool"
	"github.com/anyproto/any-sync/verifshim/vsync"

	"verif/lib/sched"
	"verif/lib/vk"
)

// ---- fakes -----------------------------------------------------------------------------------------

type msg struct {
	Name string
	peer string
	w    *world
}

func (m *msg) SetPeerId(p string) {
	m.peer = p
	// called by stream.write right before the queue's TryAdd: this is the acceptance attempt
	m.w.ev(event{Kind: "attempt", Peer: p, Msg: m.Name, By: m.w.ctl.Me()})
}
func (m *msg) Copy() drpc.Message { return &msg{Name: m.Name, w: m.w} }

type event struct {
	Kind   string // attempt send-start send-end send-err stream-close removed op-start op-ret
	Stream string
	Peer   string
	Msg    string
	By     string
	Res    string
}

func (e event) String() string {
	return strings.TrimSpace(fmt.Sprintf("%s %s %s %s %s %s", e.Kind, e.Stream, e.Peer, e.Msg, e.By, e.Res))
}

type world struct {
	mu      sync.Mutex
	log     []event
	ctl     *vsync.Controller
	pool    streampool.StreamPool
	streams map[string]*fstream
	ids     map[uint32]*fstream
	cleanup bool
	final   string
	finalSt []streampool.VerifStreamInfo
	byPeer  map[string][]uint32
	byTag   map[string][]uint32
	tagged  map[string][]string // Streams(tag) answers at quiescence
	qIdx    int                 // length of the log at quiescence (the cleanup phase is not judged)
}

func (w *world) ev(e event) {
	w.mu.Lock()
	w.log = append(w.log, e)
	w.mu.Unlock()
}

type skind string

const (
	healthy skind = "healthy"
	slow    skind = "slow"
	blocked skind = "blocked"
	failing skind = "failing"
)

type fstream struct {
	w       *world
	name    string
	peerId  string
	kind    skind
	ctx     context.Context
	closeCh chan struct{}
	once    sync.Once
	id      uint32
	qsize   int
	tags    []string
}

var errSend = errors.New("send failed")
var errClose = errors.New("close failed: transport is gone")

func (s *fstream) Context() context.Context { return s.ctx }
func (s *fstream) MsgSend(m drpc.Message, _ drpc.Encoding) error {
	name := m.(*msg).Name
	s.w.ev(event{Kind: "send-start", Stream: s.name, Msg: name})
	switch s.kind {
	case slow:
		s.w.ctl.Point("send:" + s.name)
	case failing:
		s.w.ctl.Point("send:" + s.name)
		s.w.ev(event{Kind: "send-err", Stream: s.name, Msg: name})
		return errSend
	case blocked:
		s.w.ctl.PointIf("send-blocked:"+s.name, func() bool { return s.w.cleanup })
		s.w.ev(event{Kind: "send-err", Stream: s.name, Msg: name})
		return errSend
	}
	s.w.ev(event{Kind: "send-end", Stream: s.name, Msg: name})
	return nil
}
func (s *fstream) MsgRecv(drpc.Message, drpc.Encoding) error {
	<-s.closeCh
	return io.EOF
}
func (s *fstream) CloseSend() error { return nil }
func (s *fstream) Close() error {
	s.once.Do(func() {
		s.w.ev(event{Kind: "stream-close", Stream: s.name})
		close(s.closeCh)
	})
	if s.kind == failing {
		// a transport that is already dead cannot even be closed cleanly
		return errClose
	}
	return nil
}

type handler struct{ w *world }

func (h *handler) Init(*app.App) error { return nil }
func (h *handler) Name() string        { return "h" }
func (h *handler) OpenStream(ctx context.Context, p peer.Peer) (drpc.Stream, []string, int, error) {
	if strings.HasPrefix(p.Id(), "pstuck") {
		// a dial to a stuck peer: it never completes (until the harness tears the world down)
		h.w.ev(event{Kind: "dial-stuck", Peer: p.Id()})
		h.w.ctl.PointIf("dial-stuck:"+p.Id(), func() bool { return h.w.cleanup })
		return nil, nil, 0, errSend
	}
	// a dial: the new stream is healthy
	h.w.ctl.Point("dial:" + p.Id())
	s := h.w.newStream("d-"+p.Id(), p.Id(), healthy, 2)
	return s, []string{"dialed"}, s.qsize, nil
}
func (h *handler) HandleMessage(context.Context, string, drpc.Message) error { return nil }
func (h *handler) NewReadMessage() drpc.Message                              { return &msg{} }

type fpeer struct {
	peer.Peer
	id string
}

func (p *fpeer) Id() string               { return p.id }
func (p *fpeer) Context() context.Context { return context.Background() }

func (w *world) newStream(name, peerId string, k skind, q int, tags ...string) *fstream {
	s := &fstream{w: w, name: name, peerId: peerId, kind: k, closeCh: make(chan struct{}), qsize: q, tags: tags}
	s.ctx = peer.CtxWithPeerId(context.Background(), peerId)
	w.mu.Lock()
	w.streams[name] = s
	w.mu.Unlock()
	return s
}

// ---- scenarios -------------------------------------------------------------------------------------

type opSpec struct {
	Kind string `json:"kind"` // bcast sendid send addtag rmtag rmtagid peerclose addstream
	Arg  string `json:"arg"`  // tag / peer / stream
	N    int    `json:"n"`    // number of messages (sequential calls) for send-like ops
}

func (o opSpec) String() string { return fmt.Sprintf("%s(%s)x%d", o.Kind, o.Arg, max(o.N, 1)) }

type streamSpec struct {
	Name string   `json:"name"`
	Peer string   `json:"peer"`
	Kind skind    `json:"kind"`
	Q    int      `json:"q"`
	Tags []string `json:"tags"`
}

type scenario struct {
	Streams []streamSpec `json:"streams"`
	Ops     []opSpec     `json:"ops"`
	Workers int          `json:"dial_workers,omitempty"` // dial workers (0 = 1)
	DialQ   int          `json:"dial_queue,omitempty"`   // dial queue size (0 = 1)
}

func (s scenario) workers() int { return max(s.Workers, 1) }
func (s scenario) dialQ() int   { return max(s.DialQ, 1) }

func (s scenario) String() string {
	var a, b []string
	for _, st := range s.Streams {
		a = append(a, fmt.Sprintf("%s:%s:q%d", st.Name, st.Kind, st.Q))
	}
	for _, o := range s.Ops {
		b = append(b, o.String())
	}
	cfg := ""
	if s.workers() != 1 || s.dialQ() != 1 {
		cfg = fmt.Sprintf(" [dial workers %d queue %d]", s.workers(), s.dialQ())
	}
	return strings.Join(a, ",") + " || " + strings.Join(b, " | ") + cfg
}

func (w *world) runOp(name string, idx int, o opSpec) {
	ctx := context.Background()
	n := max(o.N, 1)
	var seq []string
	if o.Kind == "sendseq" {
		// one caller sending to several peers in a row: Arg is the comma separated list of peers
		seq = strings.Split(o.Arg, ",")
		n = len(seq)
	}
	w.ev(event{Kind: "op-start", By: name})
	for k := 0; k < n; k++ {
		m := &msg{Name: fmt.Sprintf("m%d.%d", idx, k), w: w}
		w.ev(event{Kind: "call-start", By: name, Msg: m.Name})
		var err error
		switch o.Kind {
		case "bcast":
			err = w.pool.Broadcast(ctx, m, o.Arg)
		case "bcast2":
			err = w.pool.Broadcast(ctx, m, strings.Split(o.Arg, ",")...)
		case "sendid":
			err = w.pool.SendById(ctx, m, o.Arg)
		case "send", "sendseq", "sendc":
			to := o.Arg
			if seq != nil {
				to = seq[k]
			}
			p := &fpeer{id: to}
			sctx, cancel := ctx, context.CancelFunc(func() {})
			if o.Kind == "sendc" {
				// the caller gives up right after Send returned: whatever still waits on its behalf must stop waiting
				sctx, cancel = context.WithCancel(ctx)
			}
			err = w.pool.Send(sctx, m, func(context.Context) ([]peer.Peer, error) { return []peer.Peer{p}, nil })
			cancel()
			if err == nil {
				w.ev(event{Kind: "send-accepted", By: name, Msg: m.Name, Peer: to})
			}
		case "addtag", "rmtag":
			st := w.streams[o.Arg]
			sctx := streampool.VerifStreamCtx(ctx, st.id, st.peerId)
			if o.Kind == "addtag" {
				err = w.pool.AddTagsCtx(sctx, "t2", "t2")
			} else {
				err = w.pool.RemoveTagsCtx(sctx, "t1")
			}
		case "rmtagid":
			err = w.pool.RemoveTagsById(w.streams[o.Arg].id, "t1")
		case "peerclose":
			err = w.streams[o.Arg].Close()
		case "addstream":
			s := w.newStream("x-"+o.Arg, o.Arg, healthy, 1, "t1")
			err = w.pool.AddStream(s, s.qsize, s.tags...)
		}
		w.ev(event{Kind: "op-ret", By: name, Msg: m.Name, Res: fmt.Sprint(err)})
	}
}

func (s scenario) sched() sched.Scenario {
	return sched.Scenario{Name: s.String(), Setup: func(x *sched.Exec) {
		w := &world{ctl: x.C, streams: map[string]*fstream{}, ids: map[uint32]*fstream{}}
		x.Data = w
		x.BackgroundInMainPhase = true
		hook := func(id uint32, peerId string, tags []string) {
			name := "?"
			if st := w.ids[id]; st != nil {
				name = st.name
			}
			w.ev(event{Kind: "removed", Stream: name, Peer: peerId, Res: strings.Join(tags, ",")})
			// the hook is documented to run outside the pool lock, so it may use the pool (as a handler cleaning
			// up its per-stream state would): a read that takes the pool lock
			if !w.cleanup {
				_ = w.pool.Streams("t1")
			}
		}
		w.pool = streampool.NewStreamPool(&handler{w}, streampool.StreamConfig{SendQueueSize: 2, DialQueueWorkers: s.workers(), DialQueueSize: s.dialQ()}, streampool.WithStreamCloseHook(hook))
		if err := w.pool.Run(context.Background()); err != nil {
			panic(err)
		}
		var id uint32
		for _, st := range s.Streams {
			fs := w.newStream(st.Name, st.Peer, st.Kind, st.Q, st.Tags...)
			id++
			fs.id = id
			w.ids[id] = fs
			if err := w.pool.AddStream(fs, st.Q, st.Tags...); err != nil {
				panic(err)
			}
		}
		for i, o := range s.Ops {
			name := fmt.Sprintf("t%d.%s", i, o.Kind)
			i, o := i, o
			x.Go(name, func() { w.runOp(name, i, o) })
		}
		x.AtQuiescence = func() {
			w.qIdx = len(w.log)
			w.final = streampool.VerifDumpString(w.pool)
			w.finalSt, w.byPeer, w.byTag, _ = streampool.VerifDump(w.pool)
			w.tagged = map[string][]string{}
			for _, tag := range []string{"t1", "t2", "dialed"} {
				for _, ds := range w.pool.Streams(tag) {
					w.tagged[tag] = append(w.tagged[tag], ds.(*fstream).name)
				}
			}
		}
		x.Cleanup = func() {
			w.cleanup = true
			w.mu.Lock()
			var all []*fstream
			for _, st := range w.streams {
				all = append(all, st)
			}
			w.mu.Unlock()
			sort.Slice(all, func(i, j int) bool { return all[i].name < all[j].name })
			for _, st := range all {
				_ = st.Close()
			}
			_ = w.pool.Close(context.Background())
		}
	}}
}

// ---- oracle ----------------------------------------------------------------------------------------

type finding struct{ key, what string }

func (w *world) check(sc scenario) (out []finding) {
	add := func(k, f string, a ...any) { out = append(out, finding{k, fmt.Sprintf(f, a...)}) }
	// index log up to quiescence only: the cleanup phase releases blocked streams and closes everything
	type sst struct {
		spec        *fstream
		attempts    []string // accepted per reference
		dropped     []string
		started     []string
		removedAt   int
		closedAt    int
		closedEarly bool
	}
	per := map[string]*sst{}
	byPeer := map[string][]*sst{}
	get := func(name string) *sst {
		if s, ok := per[name]; ok {
			return s
		}
		fs := w.streams[name]
		s := &sst{spec: fs, removedAt: -1, closedAt: -1}
		per[name] = s
		byPeer[fs.peerId] = append(byPeer[fs.peerId], s)
		return s
	}
	var names []string
	for n := range w.streams {
		names = append(names, n)
	}
	sort.Strings(names)
	for _, n := range names {
		get(n)
	}
	multi := map[string]bool{}
	for p, l := range byPeer {
		if len(l) > 1 {
			multi[p] = true
		}
	}
	quiesceIdx := w.qIdx
	callStart := map[string]int{}
	for i, e := range w.log[:quiesceIdx] {
		switch e.Kind {
		case "call-start":
			callStart[e.Msg] = i
		case "attempt":
			for _, s := range byPeer[e.Peer] {
				if len(byPeer[e.Peer]) == 1 && s.removedAt >= 0 && callStart[e.Msg] > s.removedAt {
					add("send-targets-ended-stream", "call for %s started after stream %s had ended and been removed, yet wrote to it", e.Msg, s.spec.name)
				}
			}
			if multi[e.Peer] {
				continue // several streams per peer: the attempt cannot be attributed from the outside
			}
			for _, s := range byPeer[e.Peer] {
				if s.closedAt >= 0 {
					s.closedEarly = true
					continue
				}
				occ := len(s.attempts) - len(s.started)
				if occ < s.spec.qsize {
					s.attempts = append(s.attempts, e.Msg)
				} else {
					s.dropped = append(s.dropped, e.Msg)
				}
			}
		case "send-start":
			s := get(e.Stream)
			for _, prev := range s.started {
				if prev == e.Msg {
					add("duplicate-delivery", "message %s handed to stream %s twice", e.Msg, e.Stream)
				}
			}
			s.started = append(s.started, e.Msg)
		case "stream-close", "send-err":
			s := get(e.Stream)
			if s.closedAt < 0 {
				s.closedAt = i
			}
		case "removed":
			if s, ok := per[e.Stream]; ok {
				if s.removedAt >= 0 {
					add("removed-twice", "close hook ran twice for stream %s", e.Stream)
				}
				s.removedAt = i
			}
		}
	}
	final := map[string]streampool.VerifStreamInfo{}
	for _, fi := range w.finalSt {
		if fs := w.ids[fi.Id]; fs != nil {
			final[fs.name] = fi
		} else {
			// dialed / added streams get ids assigned by the pool: match by peer
			for _, n := range names {
				if w.streams[n].id == 0 && w.streams[n].peerId == fi.PeerId {
					if _, used := final[n]; !used {
						final[n] = fi
						break
					}
				}
			}
		}
	}
	for _, n := range names {
		s := per[n]
		if multi[s.spec.peerId] {
			continue
		}
		// order + no-loss for streams that were never closed during the explored phase
		if s.closedAt < 0 {
			fi, inPool := final[n]
			if !inPool {
				add("live-stream-missing", "stream %s was never closed but the pool no longer lists it", n)
				continue
			}
			want := s.attempts
			got := append(append([]string{}, s.started...), make([]string, 0)...)
			if len(got) > len(want) || strings.Join(want[:len(got)], ",") != strings.Join(got, ",") {
				add("order-or-content:"+string(s.spec.kind), "stream %s (%s, queue %d): messages handed to MsgSend %v are not a prefix of the accepted sequence %v (dropped %v)", n, s.spec.kind, s.spec.qsize, got, want, s.dropped)
				continue
			}
			if len(want)-len(got) != fi.QueueLen {
				add("queue-occupancy:"+string(s.spec.kind), "stream %s (%s, queue %d): accepted %v, handed to MsgSend %v, but %d still queued", n, s.spec.kind, s.spec.qsize, want, got, fi.QueueLen)
			}
			if fi.QueueLen > s.spec.qsize {
				add("queue-overflow", "stream %s buffers %d > configured %d", n, fi.QueueLen, s.spec.qsize)
			}
			if s.spec.kind == healthy && len(got) != len(want) {
				add("healthy-not-delivered", "healthy stream %s: accepted %v but only %v delivered at quiescence", n, want, got)
			}
		} else {
			// closed stream: whatever was delivered must be an in-order subsequence of what was attempted
			all := append(append([]string{}, s.attempts...), s.dropped...)
			pos := map[string]int{}
			for i, m := range all {
				pos[m] = i
			}
			last := -1
			for _, m := range s.started {
				p, ok := pos[m]
				if !ok && !s.closedEarly {
					add("delivered-unattempted", "stream %s got %s which was never written to it", n, m)
					continue
				}
				if ok {
					// accepted sequence order must be preserved
					idxInAttempts := -1
					for i, a := range s.attempts {
						if a == m {
							idxInAttempts = i
						}
					}
					if idxInAttempts >= 0 {
						if idxInAttempts < last {
							add("order:closed-stream", "stream %s delivered %v out of acceptance order %v", n, s.started, s.attempts)
						}
						last = idxInAttempts
					}
					_ = p
				}
			}
		}
	}
	// isolation at the dial level: while at least one dial worker is not occupied by a dial that never completes,
	// every Send the pool accepted for another (reachable) peer has been worked on at quiescence
	stuckDials, attempted := 0, map[string]bool{}
	for _, e := range w.log[:quiesceIdx] {
		switch e.Kind {
		case "dial-stuck":
			stuckDials++
		case "attempt":
			attempted[e.Msg] = true
		}
	}
	if stuckDials < sc.workers() {
		for _, e := range w.log[:quiesceIdx] {
			if e.Kind == "send-accepted" && !strings.HasPrefix(e.Peer, "pstuck") && !attempted[e.Msg] {
				add("accepted-send-never-worked-on", "Send of %s to peer %s was accepted, %d of %d dial workers are occupied by dials that never complete, yet nothing was ever written for it", e.Msg, e.Peer, stuckDials, sc.workers())
			}
		}
	}
	// index consistency at quiescence
	live := map[uint32]streampool.VerifStreamInfo{}
	for _, fi := range w.finalSt {
		live[fi.Id] = fi
	}
	for n, s := range per {
		if s.removedAt >= 0 {
			if fi, ok := final[n]; ok && w.streams[n].id != 0 {
				add("ended-stream-still-indexed", "stream %s ended (close hook ran) but is still listed: %+v", n, fi)
			}
			for tag, l := range w.tagged {
				for _, x := range l {
					if x == n {
						add("ended-stream-in-tag", "Streams(%s) still returns ended stream %s", tag, n)
					}
				}
			}
		}
		if s.closedAt >= 0 && s.removedAt < 0 && s.spec.kind != blocked {
			add("closed-stream-not-removed", "stream %s was closed / failed but the pool never removed it (%s)", n, w.final)
		}
	}
	for tag, ids := range w.byTag {
		seen := map[uint32]bool{}
		for _, id := range ids {
			fi, ok := live[id]
			if !ok {
				add("tag-index-dangling", "tag %s lists stream id %d which is not in the pool (%s)", tag, id, w.final)
				continue
			}
			if seen[id] {
				add("tag-index-duplicate", "tag %s lists stream id %d twice", tag, id)
			}
			seen[id] = true
			has := false
			for _, t := range fi.Tags {
				has = has || t == tag
			}
			if !has {
				add("tag-index-mismatch", "tag index %s lists stream %d whose own tags are %v", tag, id, fi.Tags)
			}
		}
		if len(ids) == 0 {
			add("tag-index-empty-entry", "tag %s keeps an empty entry", tag)
		}
	}
	for _, fi := range w.finalSt {
		for _, t := range fi.Tags {
			found := false
			for _, id := range w.byTag[t] {
				found = found || id == fi.Id
			}
			if !found {
				add("tag-index-missing", "stream %d has tag %s but the tag index does not list it (%s)", fi.Id, t, w.final)
			}
		}
		found := false
		for _, id := range w.byPeer[fi.PeerId] {
			found = found || id == fi.Id
		}
		if !found {
			add("peer-index-missing", "stream %d of peer %s missing from the peer index", fi.Id, fi.PeerId)
		}
	}
	for p, ids := range w.byPeer {
		for _, id := range ids {
			if _, ok := live[id]; !ok {
				add("peer-index-dangling", "peer %s lists stream id %d which is not in the pool (%s)", p, id, w.final)
			}
		}
	}
	return
}

// ---- driver ----------------------------------------------------------------------------------------

func scenarios(c *vk.Ctx) (out []scenario) {
	H := func(q int) streamSpec { return streamSpec{"h", "ph", healthy, q, []string{"t1"}} }
	S := func(q int) streamSpec { return streamSpec{"s", "ps", slow, q, []string{"t1"}} }
	B := func(q int) streamSpec { return streamSpec{"b", "pb", blocked, q, []string{"t1"}} }
	F := func(q int) streamSpec { return streamSpec{"f", "pf", failing, q, []string{"t1"}} }
	qs := vk.Pick(c, []int{1, 2}, []int{1, 2, 3})
	for _, q := range qs {
		// stuck peer present: broadcasts and direct sends must all return and the healthy stream must get everything
		out = append(out,
			scenario{Streams: []streamSpec{H(q), B(q)}, Ops: []opSpec{{"bcast", "t1", 3}, {"bcast", "t1", 2}}},
			scenario{Streams: []streamSpec{H(q), B(q)}, Ops: []opSpec{{"bcast", "t1", 2}, {"sendid", "pb", 3}, {"sendid", "ph", 2}}},
			scenario{Streams: []streamSpec{H(q), S(q)}, Ops: []opSpec{{"bcast", "t1", 3}, {"sendid", "ps", 2}}},
			scenario{Streams: []streamSpec{H(q), F(q)}, Ops: []opSpec{{"bcast", "t1", 2}, {"bcast", "t1", 2}}},
			scenario{Streams: []streamSpec{H(q), S(q)}, Ops: []opSpec{{"bcast", "t1", 2}, {"peerclose", "s", 1}, {"bcast", "t1", 1}}},
			scenario{Streams: []streamSpec{H(q), S(q)}, Ops: []opSpec{{"bcast", "t1", 2}, {"rmtag", "s", 1}, {"peerclose", "s", 1}}},
			scenario{Streams: []streamSpec{H(q), S(q)}, Ops: []opSpec{{"addtag", "s", 1}, {"peerclose", "s", 1}, {"bcast", "t2", 1}}},
			scenario{Streams: []streamSpec{H(q), B(q)}, Ops: []opSpec{{"send", "ph", 2}, {"send", "pn", 1}, {"bcast", "t1", 1}}},
			scenario{Streams: []streamSpec{H(q)}, Ops: []opSpec{{"send", "pn", 1}, {"send", "pn", 1}, {"sendid", "pn", 1}}},
			scenario{Streams: []streamSpec{H(q), F(q)}, Ops: []opSpec{{"rmtagid", "f", 1}, {"bcast", "t1", 2}, {"addstream", "pf", 1}}},
			scenario{Streams: []streamSpec{H(q), F(q)}, Ops: []opSpec{{"bcast", "t1", 1}, {"peerclose", "f", 1}}},
			// a dial that never completes occupies the only dial worker and the dial queue fills up: Send must still
			// return to its caller (1 worker, queue of 1: the third pending Send finds the queue full)
			scenario{Streams: []streamSpec{H(q)}, Ops: []opSpec{{"send", "pstuck", 1}, {"send", "ph", 3}, {"bcast", "t1", 1}}},
			scenario{Streams: []streamSpec{H(q)}, Ops: []opSpec{{"send", "pstuck", 2}, {"send", "pstuck2", 2}, {"sendid", "ph", 1}}},
			// two dial workers: a dial that never completes may occupy one of them, the other one must go on serving
			// (both are first kept busy by ordinary dials, so that several sends are waiting when one becomes free)
			scenario{Streams: []streamSpec{H(q)}, Ops: []opSpec{{"sendseq", "pn1,pn2,pstuck,ph", 1}, {"bcast", "t1", 1}}, Workers: 2, DialQ: 2},
			scenario{Streams: []streamSpec{H(q), S(q)}, Ops: []opSpec{{"addtag", "s", 1}, {"bcast2", "t1,t2", 2}, {"addtag", "h", 1}}},
		)
		if q == 1 {
			// two Sends to a peer whose dial never completes, both abandoned by their callers: the dial itself keeps one
			// of the two workers, the Send waiting for that dial's outcome must give its worker back
			out = append(out, scenario{Streams: []streamSpec{H(q)}, Ops: []opSpec{{"sendc", "pstuck", 2}, {"send", "ph", 1}}, Workers: 2, DialQ: 4})
		}
	}
	if c.Thorough() {
		for _, q := range qs {
			out = append(out,
				scenario{Streams: []streamSpec{H(q), S(q), B(q)}, Ops: []opSpec{{"bcast", "t1", 2}, {"bcast", "t1", 2}, {"sendid", "ps", 2}, {"peerclose", "s", 1}}},
				scenario{Streams: []streamSpec{H(q), S(q), F(q)}, Ops: []opSpec{{"bcast", "t1", 2}, {"addtag", "s", 1}, {"rmtag", "f", 1}, {"peerclose", "f", 1}}},
				scenario{Streams: []streamSpec{H(q), S(q)}, Ops: []opSpec{{"send", "ps", 2}, {"send", "pn", 1}, {"peerclose", "s", 1}, {"bcast", "dialed", 1}}},
			)
		}
	}
	return
}

func TestCheck(t *testing.T) {
	logger.SetDefault(zap.NewNop().WithOptions(zap.WithFatalHook(zapcore.WriteThenPanic)))
	logger.SetNamedLevels(logger.LevelsFromStr("*=fatal"))
	streampool.VerifPanicOnFatal()
	vk.Main(t, vk.Spec{
		Prop:  "C19",
		Level: "model_checking",
		Rule: "stateless DFS over all schedules (preemption- and deviation-bounded) of 2-4 concurrent Send/SendById/Broadcast/tag/peer-close/AddStream operations on a real stream pool holding healthy, slow, blocked-forever and failing fake streams with queue sizes 1..3; " +
			"scheduling points = pool mutex acquisitions, stream.closed atomic operations, MsgSend of slow/failing streams, dials; the blocked stream is never released before quiescence; " +
			"states = distinct (scenario, event log, index dump) outcomes; distinct_nontrivial = outcomes in which at least one message was dropped by a full queue or a stream was removed while messages were in flight",
		Assumptions: []string{
			"goroutines interleave only at lock acquisitions, stream.closed operations and harness stream events; the third-party mb queue is not instrumented (its operations are atomic steps of the segment in which they run)",
			"one stream per peer in the scenarios whose acceptance order is checked (an attempt is observed through peerMessage.SetPeerId, which names the peer)",
			"dial pool: 1 worker, queue 1; delivery through Send() behind a stuck dial is outside the checked claim",
		},
		Shards:   func(string) int { return 16 },
		MaxProcs: 1,
		Budget: func(tier string) time.Duration {
			if tier == "quick" {
				return 80 * time.Second
			}
			return 25 * time.Minute
		},
	}, func(c *vk.Ctx) { body(t, c) })
}

func body(t *testing.T, c *vk.Ctx) {
	pb, db := vk.Pick(c, 3, 4), vk.Pick(c, 1, 2)
	c.Bound("preemption_bound", pb)
	c.Bound("deviation_bound", db)
	if c.Replay != "" {
		replay(t, c)
		return
	}
	if c.Shard == c.NShards-1 {
		partReceive(t, c)
	}
	scs := scenarios(c)
	c.Bound("scenarios", len(scs))
	for i, sc := range scs {
		if !c.Mine(i) {
			continue
		}
		sc := sc
		ex := &sched.Explorer{T: t, PreemptBound: pb, DevBound: db, Stop: c.TimeUp, Horizon: 600}
		ex.OnStuck = func(r *sched.Result) {
			c.Note("scenario %s stuck: deadlock=%v horizon=%v unfinished=%v", sc, r.Deadlock, r.Horizon, r.Unfinished)
			c.FlushAndExit()
		}
		ex.OnExec = func(r *sched.Result) { judge(c, sc, r) }
		r1, d := ex.CheckReplayable(sc.sched())
		for try := 0; d != "" && try < 3; try++ {
			// two free-running dial workers: on a heavily loaded machine the recording itself can differ from its
			// first replay; the pre-check is repeated before the harness declares itself unusable for this scenario
			c.Count("n_precheck_retries", 1)
			r1, d = ex.CheckReplayable(sc.sched())
		}
		if d != "" {
			c.Broken("scenario %s: default schedule is not deterministic: %s", sc, d)
			continue
		}
		ex.Explore(sc.sched())
		if ex.Capped {
			c.NotExhaustive(fmt.Sprintf("deadline reached inside scenario %s after %d executions", sc, ex.Executions))
		}
		if ex.Skipped > 0 {
			c.NotExhaustive(fmt.Sprintf("scenario %s: %d subtrees skipped (divergence: %s)", sc, ex.Skipped, ex.LastDivergence))
		}
		c.Count("scenarios_done", 1)
		c.Count("replay_retries", ex.Retries)
		if i < 4 {
			c.Sample(map[string]any{"scenario": sc.String(), "executions": ex.Executions, "max_steps": ex.MaxSteps, "default_schedule": r1.Trace})
		}
	}
	if c.Shard == 0 {
		// free-running part, after the scheduled scenarios of this process (its pools' goroutines must not be around
		// while the controlled scheduler runs)
		partQueueBound(t, c)
	}
}

func judge(c *vk.Ctx, sc scenario, r *sched.Result) {
	c.Count("executions", 1)
	c.Count("transitions", int64(len(r.Steps)))
	w := r.Data.(*world)
	var sb strings.Builder
	for _, e := range w.log {
		sb.WriteString(e.String())
		sb.WriteByte('\n')
	}
	logStr := sb.String()
	if c.Distinct("states", sc.String()+"\n"+logStr+w.final) {
		if strings.Contains(logStr, "removed") || strings.Count(logStr, "attempt") > strings.Count(logStr, "send-start") {
			c.Distinct("distinct", sc.String()+"\n"+logStr+w.final)
		}
	}
	rep := func() any {
		return map[string]any{"scenario": sc, "choices": r.Choices, "trace": r.Trace, "log": strings.Split(strings.TrimSpace(logStr), "\n"), "final": w.final}
	}
	for _, p := range r.Panics {
		first := strings.SplitN(p, "\n", 2)[0]
		c.Violation("panic:"+trimTo(first, 90)+"@"+vk.PanicSite(p), fmt.Sprintf("scenario %s: %s", sc, first), rep())
	}
	if r.Deadlock && len(r.Panics) == 0 {
		c.Violation("caller-blocked:"+blockedSummary(r.Unfinished), fmt.Sprintf("scenario %s: operations cannot finish while the blocked stream is never released: %v", sc, r.Unfinished), rep())
	}
	if r.Horizon {
		c.Violation("livelock", fmt.Sprintf("scenario %s: step horizon reached: %v", sc, r.Unfinished), rep())
	}
	if r.Stuck || r.Diverged != "" {
		return
	}
	for _, f := range w.check(sc) {
		c.Violation(f.key, fmt.Sprintf("scenario %s: %s", sc, f.what), rep())
	}
}

func trimTo(s string, n int) string {
	if len(s) > n {
		return s[:n]
	}
	return s
}

func blockedSummary(unf []string) string {
	var k []string
	for _, u := range unf {
		parts := strings.Split(u, ":")
		if len(parts) >= 2 {
			k = append(k, strings.Join(parts[:2], ":"))
		}
	}
	sort.Strings(k)
	return strings.Join(k, ",")
}

func replay(t *testing.T, c *vk.Ctx) {
	var rf struct {
		Case struct {
			Scenario scenario `json:"scenario"`
			Choices  []int    `json:"choices"`
			Part     string   `json:"part"`
			K        int      `json:"k"`
			PoolSize int      `json:"pool_send_queue_size"`
			Arg      int      `json:"add_stream_queue_size"`
		} `json:"case"`
	}
	if err := vk.ReadJSON(c.Replay, &rf); err != nil {
		c.Broken("replay file: %v", err)
		return
	}
	if rf.Case.Part == "queuebound" {
		c.Distinct("distinct", "replay-queuebound")
		c.Count("executions", 2)
		cs := qCase{Part: "queuebound", PoolSize: rf.Case.PoolSize, Arg: rf.Case.Arg}
		if key, what := queueBoundCase(cs); key != "" {
			c.Violation(key, "replayed: "+what, cs)
		}
		return
	}
	if rf.Case.Part == "receive" {
		c.Distinct("distinct", "replay-receive")
		c.Count("executions", 1)
		if what := receiveCase(t, rf.Case.K); what != "" {
			c.Violation("receive-side:"+what, fmt.Sprintf("replayed: a stuck object received %d head updates over one stream, then a healthy object one: %s", rf.Case.K, what), map[string]any{"part": "receive", "k": rf.Case.K})
		}
		return
	}
	ex := &sched.Explorer{T: t, Horizon: 600}
	called := false
	ex.OnStuck = func(r *sched.Result) { c.FlushAndExit() }
	ex.OnExec = func(res *sched.Result) { called = true; judge(c, rf.Case.Scenario, res) }
	res := ex.Run(rf.Case.Scenario.sched(), rf.Case.Choices)
	if !called {
		judge(c, rf.Case.Scenario, res)
	}
	for _, e := range res.Data.(*world).log {
		fmt.Println("  ", e)
	}
}
