package c19

// Part Q — the queue bound of a stream whose size the caller did not choose.
//
// "each stream buffers at most its configured number of messages and drops beyond that": for every combination of the
// pool's configured SendQueueSize (unset, 3) and the size handed to AddStream (0, -1, 1, 3) a stream whose peer never
// reads is added to a real pool, one message is sent and picked up by the write loop (which then blocks in MsgSend for
// good), then N-1 more are broadcast. What the stream retains must not depend on N (N = 150 and 400 are compared:
// a bound is a number that does not grow with the traffic), and must not exceed the size the caller chose when it
// chose one. No wall-clock oracle: the only wait is for the write loop to enter MsgSend (harness guard 30 s).

import (
	"context"
	"errors"
	"fmt"
	"io"
	gosync "sync"
	"testing"
	"time"

	"storj.io/drpc"

	"github.com/anyproto/any-sync/app"
	"github.com/anyproto/any-sync/net/peer"
	"github.com/anyproto/any-sync/net/streampool"

	"verif/lib/vk"
)

type qHandler struct{}

func (qHandler) Init(*app.App) error { return nil }
func (qHandler) Name() string        { return "verif.qhandler" }
func (qHandler) OpenStream(context.Context, peer.Peer) (drpc.Stream, []string, int, error) {
	return nil, nil, 0, errors.New("no dialing in part Q")
}
func (qHandler) HandleMessage(context.Context, string, drpc.Message) error { return nil }
func (qHandler) NewReadMessage() drpc.Message                              { return &rMsg{} }

// qStream: the peer never reads — MsgSend blocks until the stream is closed; nothing ever arrives.
type qStream struct {
	ctx     context.Context
	entered chan struct{}
	closed  chan struct{}
	once    gosync.Once
	eonce   gosync.Once
}

func (s *qStream) Context() context.Context { return s.ctx }
func (s *qStream) MsgSend(drpc.Message, drpc.Encoding) error {
	s.eonce.Do(func() { close(s.entered) })
	<-s.closed
	return io.ErrClosedPipe
}
func (s *qStream) MsgRecv(drpc.Message, drpc.Encoding) error { <-s.closed; return io.EOF }
func (s *qStream) CloseSend() error                          { return nil }
func (s *qStream) Close() error                              { s.once.Do(func() { close(s.closed) }); return nil }

type qCase struct {
	Part     string `json:"part"`
	PoolSize int    `json:"pool_send_queue_size"`
	Arg      int    `json:"add_stream_queue_size"`
}

// retained returns how many messages the stuck stream still buffers after n broadcasts (the first one is in MsgSend).
func retained(cs qCase, n int) (int, string) {
	pool := streampool.NewStreamPool(qHandler{}, streampool.StreamConfig{SendQueueSize: cs.PoolSize, DialQueueWorkers: 1, DialQueueSize: 4})
	if err := pool.Run(context.Background()); err != nil {
		return 0, "harness: pool run: " + err.Error()
	}
	st := &qStream{ctx: peer.CtxWithPeerId(context.Background(), "peerQ"), entered: make(chan struct{}), closed: make(chan struct{})}
	defer func() {
		_ = st.Close()
		_ = pool.Close(context.Background())
	}()
	if err := pool.AddStream(st, cs.Arg, "tagQ"); err != nil {
		return 0, "harness: AddStream: " + err.Error()
	}
	if err := pool.Broadcast(context.Background(), &rMsg{obj: "m0"}, "tagQ"); err != nil {
		return 0, "Broadcast returned " + err.Error()
	}
	select {
	case <-st.entered:
	case <-time.After(30 * time.Second):
		return 0, "harness: the write loop never handed the first message to the stream"
	}
	for i := 1; i < n; i++ {
		if err := pool.Broadcast(context.Background(), &rMsg{obj: fmt.Sprint("m", i)}, "tagQ"); err != nil {
			return 0, fmt.Sprintf("Broadcast %d returned %v", i, err)
		}
	}
	streams, _, _, _ := streampool.VerifDump(pool)
	if len(streams) != 1 {
		return 0, fmt.Sprintf("harness: %d streams in the pool", len(streams))
	}
	return streams[0].QueueLen, ""
}

func queueBoundCase(cs qCase) (key, what string) {
	a, e := retained(cs, 150)
	if e != "" {
		return "queue-bound:" + e, e
	}
	b, e := retained(cs, 400)
	if e != "" {
		return "queue-bound:" + e, e
	}
	switch {
	case a != b:
		return "queue-bound:grows-with-traffic", fmt.Sprintf("pool SendQueueSize=%d, AddStream queue size %d, peer never reads: after 150 broadcasts the stream buffers %d messages, after 400 it buffers %d — nothing is dropped, there is no bound", cs.PoolSize, cs.Arg, a, b)
	case cs.Arg >= 1 && a > cs.Arg:
		return "queue-bound:exceeds-configured", fmt.Sprintf("pool SendQueueSize=%d, AddStream queue size %d, peer never reads: the stream buffers %d messages", cs.PoolSize, cs.Arg, a)
	}
	return "", fmt.Sprint(a)
}

func partQueueBound(t *testing.T, c *vk.Ctx) {
	n := 0
	for _, ps := range []int{0, 3} {
		for _, arg := range []int{0, -1, 1, 3} {
			cs := qCase{Part: "queuebound", PoolSize: ps, Arg: arg}
			key, what := queueBoundCase(cs)
			n++
			c.Count("executions", 2)
			c.Count("queue_bound_cases", 1)
			c.Distinct("distinct", fmt.Sprintf("queuebound|%d|%d|%s", ps, arg, what))
			if key != "" {
				c.Violation(key, what, cs)
			}
		}
	}
	c.Bound("queue_bound_cases", n)
}
