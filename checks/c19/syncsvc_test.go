package c19

// Part R — the receive side of the same promise: one stuck object must not take the peer's stream down.
//
// A real sync service (commonspace/sync) with its real per-object receive queues (util/multiqueue) is the message
// handler of a real stream pool. The handler of one object never returns; k head updates for that object arrive over
// the stream (every k from 0 to the queue capacity + 3), then one update for a healthy object. Whatever k is, every
// HandleMessage must return without an error (overflow is dropped silently), the stream must stay in the pool with
// its tag, and the healthy object's update must be handled.

import (
	"context"
	"errors"
	"fmt"
	"io"
	gosync "sync"
	"testing"
	"time"

	"go.uber.org/mock/gomock"
	"google.golang.org/protobuf/proto"
	"storj.io/drpc"

	"github.com/anyproto/any-sync/app"
	"github.com/anyproto/any-sync/commonspace/peermanager"
	"github.com/anyproto/any-sync/commonspace/peermanager/mock_peermanager"
	"github.com/anyproto/any-sync/commonspace/spacestate"
	"github.com/anyproto/any-sync/commonspace/spacesyncproto"
	"github.com/anyproto/any-sync/commonspace/sync"
	"github.com/anyproto/any-sync/commonspace/sync/syncdeps"
	"github.com/anyproto/any-sync/net/peer"
	"github.com/anyproto/any-sync/net/streampool"
	"github.com/anyproto/any-sync/nodeconf"
	"github.com/anyproto/any-sync/nodeconf/mock_nodeconf"
	"github.com/anyproto/any-sync/testutil/accounttest"
	"github.com/anyproto/any-sync/testutil/anymock"
	"github.com/anyproto/any-sync/util/syncqueues"

	"verif/lib/vk"
)

type rMsg struct{ obj string }

func (m *rMsg) ObjectId() string                       { return m.obj }
func (m *rMsg) MsgSize() uint64                        { return 10 }
func (m *rMsg) ObjectType() spacesyncproto.ObjectType { return spacesyncproto.ObjectType_Tree }

type rHandler struct {
	mu      gosync.Mutex
	handled []string
	release chan struct{}
}

func (h *rHandler) Init(*app.App) error { return nil }
func (h *rHandler) Name() string        { return syncdeps.CName }
func (h *rHandler) HandleHeadUpdate(ctx context.Context, m drpc.Message) (syncdeps.Request, error) {
	id := m.(*rMsg).obj
	if id == "stuck" {
		<-h.release
		return nil, nil
	}
	h.mu.Lock()
	h.handled = append(h.handled, id)
	h.mu.Unlock()
	return nil, nil
}
func (h *rHandler) HandleStreamRequest(context.Context, syncdeps.Request, syncdeps.QueueSizeUpdater, func(proto.Message) error) (syncdeps.Request, error) {
	return nil, nil
}
func (h *rHandler) ApplyRequest(context.Context, syncdeps.Request, syncdeps.RequestSender) error { return nil }
func (h *rHandler) SendStreamRequest(context.Context, syncdeps.Request, func(drpc.Stream) error) error {
	return nil
}
func (h *rHandler) has(id string) bool {
	h.mu.Lock()
	defer h.mu.Unlock()
	for _, x := range h.handled {
		if x == id {
			return true
		}
	}
	return false
}

// rStreamHandler hands every message of the stream to the sync service, as the space's stream handler does.
type rStreamHandler struct {
	svc  sync.SyncService
	errs chan error
}

func (d *rStreamHandler) Init(*app.App) error { return nil }
func (d *rStreamHandler) Name() string        { return "verif.streamhandler" }
func (d *rStreamHandler) OpenStream(context.Context, peer.Peer) (drpc.Stream, []string, int, error) {
	return nil, nil, 0, errors.New("no dialing in part R")
}
func (d *rStreamHandler) HandleMessage(ctx context.Context, peerId string, msg drpc.Message) error {
	err := d.svc.HandleMessage(ctx, msg)
	if err != nil {
		select {
		case d.errs <- err:
		default:
		}
	}
	return err
}
func (d *rStreamHandler) NewReadMessage() drpc.Message { return &rMsg{} }

type rStream struct {
	ctx    context.Context
	in     chan string
	closed chan struct{}
	once   gosync.Once
}

func (s *rStream) Context() context.Context                 { return s.ctx }
func (s *rStream) MsgSend(drpc.Message, drpc.Encoding) error { return nil }
func (s *rStream) MsgRecv(msg drpc.Message, _ drpc.Encoding) error {
	select {
	case id := <-s.in:
		msg.(*rMsg).obj = id
		return nil
	case <-s.closed:
		return io.EOF
	}
}
func (s *rStream) CloseSend() error { return nil }
func (s *rStream) Close() error {
	s.once.Do(func() { close(s.closed) })
	return nil
}

// partReceive runs the sweep; it uses real goroutines and real (generous) waits as harness guards.
func partReceive(t *testing.T, c *vk.Ctx) {
	const capacity = 100 // receive queue capacity per object in commonspace/sync
	ks := []int{0, 1, 2, capacity - 1, capacity, capacity + 1, capacity + 2, capacity + 3, 2 * capacity}
	if c.Thorough() {
		ks = nil
		for k := 0; k <= capacity+3; k++ {
			ks = append(ks, k)
		}
		ks = append(ks, 2*capacity, 5*capacity)
	}
	c.Bound("receive_side_stuck_object_update_counts", len(ks))
	for _, k := range ks {
		what := receiveCase(t, k)
		c.Count("executions", 1)
		c.Count("receive_side_cases", 1)
		c.Distinct("distinct", fmt.Sprintf("receive|k=%d|%s", k, what))
		if what != "" {
			c.Violation("receive-side:"+what, fmt.Sprintf("a stuck object received %d head updates over one stream, then a healthy object one: %s", k, what), map[string]any{"part": "receive", "k": k})
		}
	}
}

func receiveCase(t *testing.T, k int) (what string) {
	ctrl := gomock.NewController(t)
	h := &rHandler{release: make(chan struct{})}
	nodeConf := mock_nodeconf.NewMockService(ctrl)
	pm := mock_peermanager.NewMockPeerManager(ctrl)
	anymock.ExpectComp(pm.EXPECT(), peermanager.CName)
	anymock.ExpectComp(nodeConf.EXPECT(), nodeconf.CName)
	nodeConf.EXPECT().Configuration().Return(nodeconf.Configuration{}).AnyTimes()
	svc := sync.NewSyncService()
	a := &app.App{}
	a.Register(&accounttest.AccountTestService{}).Register(pm).Register(&spacestate.SpaceState{SpaceId: "spaceR"}).
		Register(nodeConf).Register(syncqueues.New()).Register(svc).Register(h)
	if err := a.Start(context.Background()); err != nil {
		return "harness: app start: " + err.Error()
	}
	sh := &rStreamHandler{svc: svc, errs: make(chan error, 1)}
	pool := streampool.NewStreamPool(sh, streampool.StreamConfig{SendQueueSize: 10, DialQueueWorkers: 1, DialQueueSize: 10})
	if err := pool.Run(context.Background()); err != nil {
		return "harness: pool run: " + err.Error()
	}
	defer func() {
		close(h.release)
		_ = pool.Close(context.Background())
		_ = a.Close(context.Background())
	}()
	st := &rStream{ctx: peer.CtxWithPeerId(context.Background(), "peerR"), in: make(chan string), closed: make(chan struct{})}
	if err := pool.AddStream(st, 10, "spaceR"); err != nil {
		return "harness: AddStream: " + err.Error()
	}
	send := func(id string) bool {
		select {
		case st.in <- id:
			return true
		case <-st.closed:
			return false
		case <-time.After(30 * time.Second):
			return false
		}
	}
	for i := 0; i < k; i++ {
		if !send("stuck") {
			return fmt.Sprintf("the pool closed the stream (or stopped reading it) after %d updates for the stuck object", i)
		}
	}
	if !send("healthy") {
		return "the pool closed the stream (or stopped reading it) before the healthy object's update"
	}
	deadline := time.Now().Add(30 * time.Second)
	for !h.has("healthy") {
		select {
		case err := <-sh.errs:
			return "HandleMessage returned an error to the stream: " + err.Error()
		case <-st.closed:
			return "the stream was closed by the pool"
		default:
		}
		if time.Now().After(deadline) {
			return "the healthy object's update was not handled within 30 s"
		}
		time.Sleep(time.Millisecond)
	}
	select {
	case err := <-sh.errs:
		return "HandleMessage returned an error to the stream: " + err.Error()
	case <-st.closed:
		return "the stream was closed by the pool"
	default:
	}
	if n := len(pool.Streams("spaceR")); n != 1 {
		return fmt.Sprintf("Streams(tag) lists %d streams instead of 1", n)
	}
	return ""
}
