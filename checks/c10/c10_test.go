// C10 — tree and ACL persistence is all-or-nothing under crashes and storage faults.
//
// Engine F: the subject replica's any-store database is wrapped by lib/faultstore, which numbers every
// storage-call boundary. Every operation of the workload is first run fault-free from a fault-free predecessor
// state (boundary list, "before" and "after" durable dumps); then, for every boundary k, the predecessor is
// rebuilt twice: once taking a copy of the database files right before boundary k (crash image, reopened like a
// restart) and once making boundary k fail (injected error: live object vs storage, retry of the same input).
package c10

import (
	"context"
	"errors"
	"fmt"
	"os"
	"path/filepath"
	"regexp"
	"sort"
	"strings"
	"testing"
	"time"

	anystore "github.com/anyproto/any-store"
	"go.uber.org/zap"

	"github.com/anyproto/any-sync/app/logger"
	"github.com/anyproto/any-sync/commonspace/object/acl/aclrecordproto"
	"github.com/anyproto/any-sync/commonspace/object/acl/list"
	"github.com/anyproto/any-sync/commonspace/object/acl/recordverifier"
	"github.com/anyproto/any-sync/commonspace/object/tree/objecttree"
	"github.com/anyproto/any-sync/commonspace/object/tree/synctree"
	"github.com/anyproto/any-sync/commonspace/object/tree/treechangeproto"
	"github.com/anyproto/any-sync/commonspace/object/tree/treestorage"
	"github.com/anyproto/any-sync/commonspace/spacestorage"
	"github.com/anyproto/any-sync/consensus/consensusproto"
	"github.com/anyproto/any-sync/util/cidutil"

	"verif/lib/faultstore"
	"verif/lib/treesim"
	"verif/lib/vk"
)

var ctx = context.Background()

// env is one subject world: replica 0 on a fault-wrapped real database, replica 1 a plain source of remote changes.
type env struct {
	f   *treesim.Fixture
	w   *treesim.World
	ctl *faultstore.Ctl
}

type opSpec struct {
	Name string
	// Pre brings a fresh world into the predecessor state (fault-free).
	Pre func(e *env)
	// Prepare computes the input of the operation (fault-free, e.g. lets the source replica create changes).
	Prepare func(e *env) any
	// Do performs the operation on replica 0 with the prepared input; returns the operation's error.
	Do func(e *env, in any) error
	// LiveHeads returns the live object's heads after the operation ("" when the op has no live object).
	Live func(e *env) string
}

func subject(e *env) *treesim.Replica { return e.w.Replicas[0] }

func treeHeads(r *treesim.Replica) string {
	r.Tree.Lock()
	defer r.Tree.Unlock()
	h := append([]string{}, r.Tree.Heads()...)
	sort.Strings(h)
	return strings.Join(h, ",")
}

func deliverAll(w *treesim.World) {
	for n := 0; len(w.Net) > 0 && n < 100; n++ {
		w.Deliver(w.Take(0), -1)
	}
}

// responseFrom makes replica 1 answer a full-sync request of replica 0 and returns the response message.
func responseFrom(e *env) *treesim.Msg {
	e.w.Net = nil
	e.w.SyncWithPeer(0, 1)
	req := e.w.Take(0)
	e.w.Deliver(req, -1)
	for i, m := range e.w.Net {
		if m.Kind == "resp" {
			return e.w.Take(i)
		}
	}
	return nil
}

// localAdd adds a fixed piece of content (the "same input" of a retry) to the subject's tree.
func localAdd(e *env, snapshot bool, validate func(objecttree.StorageChange) error) error {
	t := subject(e).Tree
	t.Lock()
	defer t.Unlock()
	_, err := t.AddContentWithValidator(ctx, objecttree.SignableChangeContent{
		Data: []byte("the-operation-under-test"), Key: e.f.Keys.SignKey, IsSnapshot: snapshot, Timestamp: 1700000900, DataType: "verif",
	}, validate)
	e.w.Net = nil
	return err
}

func ops() []opSpec {
	return []opSpec{
		{
			Name: "local-add",
			Pre:  func(e *env) { e.w.Edit(0, false); e.w.Net = nil },
			Do:   func(e *env, _ any) error { return localAdd(e, false, nil) },
			Live: func(e *env) string { return treeHeads(subject(e)) },
		},
		{
			Name: "local-snapshot-add",
			Pre:  func(e *env) { e.w.Edit(0, false); e.w.Edit(0, false); e.w.Net = nil },
			Do:   func(e *env, _ any) error { return localAdd(e, true, nil) },
			Live: func(e *env) string { return treeHeads(subject(e)) },
		},
		{
			Name: "remote-add-two-changes",
			Pre:  func(e *env) { e.w.Edit(0, false); deliverAll(e.w) },
			Prepare: func(e *env) any {
				e.w.Edit(1, false)
				e.w.Edit(1, false)
				e.w.Net = nil
				return responseFrom(e)
			},
			Do:   func(e *env, in any) error { m := *in.(*treesim.Msg); return e.w.Deliver(&m, -1) },
			Live: func(e *env) string { return treeHeads(subject(e)) },
		},
		{
			Name: "remote-add-forcing-rebuild",
			Pre: func(e *env) {
				// replica 1 edits concurrently on the old root; replica 0 snapshots (its in-memory tree shrinks to the snapshot)
				e.w.Edit(0, false)
				deliverAll(e.w)
			},
			Prepare: func(e *env) any {
				e.w.Edit(1, false) // based on the common state
				e.w.Net = nil
				e.w.Edit(0, true) // subject snapshots: the remote change's snapshot base is no longer in memory
				e.w.Net = nil
				return responseFrom(e)
			},
			Do:   func(e *env, in any) error { m := *in.(*treesim.Msg); return e.w.Deliver(&m, -1) },
			Live: func(e *env) string { return treeHeads(subject(e)) },
		},
		{
			Name: "acl-add-record",
			Pre:  func(e *env) {},
			Prepare: func(e *env) any {
				r := subject(e)
				r.Acl.Lock()
				defer r.Acl.Unlock()
				// assembled by hand so that the record bytes do not depend on the wall clock
				data, _ := (&aclrecordproto.AclData{AclContent: []*aclrecordproto.AclContentValue{{Value: &aclrecordproto.AclContentValue_SpaceOptionsChange{
					SpaceOptionsChange: &aclrecordproto.AclSpaceOptionsChange{Options: &aclrecordproto.AclSpaceOptions{DeleteRestricted: true}}}}}}).MarshalVT()
				ident, _ := e.f.Keys.SignKey.GetPublic().Marshall()
				recBytes, _ := (&consensusproto.Record{PrevId: r.Acl.Head().Id, Identity: ident, Data: data, Timestamp: 1700000500}).MarshalVT()
				sig, err := e.f.Keys.SignKey.Sign(recBytes)
				if err != nil {
					panic(err)
				}
				raw := &consensusproto.RawRecord{Payload: recBytes, Signature: sig}
				payload, _ := raw.MarshalVT()
				id, _ := cidutil.NewCidFromBytes(payload)
				return &consensusproto.RawRecordWithId{Payload: payload, Id: id}
			},
			Do: func(e *env, in any) error {
				r := subject(e)
				r.Acl.Lock()
				defer r.Acl.Unlock()
				err := r.Acl.AddRawRecord(in.(*consensusproto.RawRecordWithId))
				if errors.Is(err, list.ErrRecordAlreadyExists) {
					return nil
				}
				return err
			},
			Live: func(e *env) string {
				r := subject(e)
				r.Acl.RLock()
				defer r.Acl.RUnlock()
				return r.Acl.Head().Id
			},
		},
		{
			Name: "tree-delete",
			Pre:  func(e *env) { e.w.Edit(0, false); e.w.Edit(0, false); e.w.Net = nil },
			Do:   func(e *env, _ any) error { return subject(e).Tree.Delete() },
			Live: func(e *env) string { return "" },
		},
		{
			Name: "tree-create-eager",
			Pre:  func(e *env) {},
			Prepare: func(e *env) any {
				root, err := objecttree.CreateObjectTreeRoot(objecttree.ObjectTreeCreatePayload{
					PrivKey: e.f.Keys.SignKey, ChangeType: "verif.second", ChangePayload: []byte("p2"), SpaceId: e.f.SpaceId,
					Seed: []byte("second-tree"), Timestamp: 1700000001,
				}, subject(e).Acl)
				if err != nil {
					panic(err)
				}
				return root
			},
			Do: func(e *env, in any) error {
				root := in.(*treechangeproto.RawTreeChangeWithId)
				st, err := subject(e).Space.CreateTreeStorage(ctx, treestorage.TreeStorageCreatePayload{RootRawChange: root, Heads: []string{root.Id}})
				if errors.Is(err, treestorage.ErrTreeExists) {
					return nil
				}
				_ = st
				return err
			},
			Live: func(e *env) string { return "" },
		},
		{
			Name: "tree-create-deferred-with-changes",
			Pre:  func(e *env) {},
			Prepare: func(e *env) any {
				// a second tree with two changes, produced on replica 1 over in-memory storage
				root, err := objecttree.CreateObjectTreeRoot(objecttree.ObjectTreeCreatePayload{
					PrivKey: e.f.Keys.SignKey, ChangeType: "verif.third", ChangePayload: []byte("p3"), SpaceId: e.f.SpaceId,
					Seed: []byte("third-tree"), Timestamp: 1700000002,
				}, subject(e).Acl)
				if err != nil {
					panic(err)
				}
				st := treesim.NewMemTreeStorage(root)
				t, err := objecttree.BuildObjectTree(st, subject(e).Acl)
				if err != nil {
					panic(err)
				}
				var raws []*treechangeproto.RawTreeChangeWithId
				t.Lock()
				for i := 0; i < 2; i++ {
					res, err := t.AddContent(ctx, objecttree.SignableChangeContent{Data: []byte(fmt.Sprint("x", i)), Key: e.f.Keys.SignKey, Timestamp: int64(1700000010 + i), DataType: "verif"})
					if err != nil {
						panic(err)
					}
					raws = append(raws, res.RawChanges()...)
				}
				heads := append([]string{}, t.Heads()...)
				t.Unlock()
				return treestorage.TreeStorageCreatePayload{RootRawChange: root, Changes: raws, Heads: heads}
			},
			Do: func(e *env, in any) error {
				_, err := objecttree.ValidateRawTreeDefault(in.(treestorage.TreeStorageCreatePayload), subject(e).Space, subject(e).Acl)
				if errors.Is(err, treestorage.ErrTreeExists) {
					return nil
				}
				return err
			},
			Live: func(e *env) string { return "" },
		},
	}
}

func newEnv(c *vk.Ctx, f *treesim.Fixture) *env {
	e := &env{f: f, ctl: faultstore.NewCtl()}
	treesim.WrapDB = func(idx int, db anystore.DB) anystore.DB {
		if idx == 0 {
			return faultstore.Wrap(db, e.ctl)
		}
		return db
	}
	w, err := treesim.NewWorldOn("anystore", f, 2, c.Scratch)
	treesim.WrapDB = nil
	if err != nil {
		panic(err)
	}
	e.w = w
	return e
}

// the tree storage stamps every stored change with the wall-clock second it was inserted at ("a"): not part of the
// durable state the property talks about, masked in the dumps
var addedAt = regexp.MustCompile(`"a":[0-9.e+]+`)

// the apply sequence number ("q") a change gets depends on how many writes were attempted before (a failed attempt
// consumes one): when the result of a retry is compared with the fault-free result only its relative order matters
var addSeq = regexp.MustCompile(`"q":[0-9]+`)

func dumpIgnoringSeq(db anystore.DB) string { return addSeq.ReplaceAllString(dump(db), `"q":0`) }

func dump(db anystore.DB) string {
	d, err := faultstore.Dump(ctx, db)
	if err != nil {
		return "DUMP-ERROR: " + err.Error()
	}
	return addedAt.ReplaceAllString(d, `"a":0`)
}

// structural checks a reopened database image.
func structural(f *treesim.Fixture, dir string) (problems []string, d string) {
	db, space, acl, tree, err := treesim.OpenImage(f, dir)
	if db != nil {
		defer db.Close()
	}
	if err != nil {
		// a deleted tree cannot be reopened: that is the "after" state of tree-delete, judged by the dump comparison
		if db != nil {
			d = dump(db)
		}
		if !errors.Is(err, treestorage.ErrUnknownTreeId) {
			problems = append(problems, "reopen failed: "+err.Error())
		}
		return
	}
	d = dump(db)
	// ACL: head is the last stored record and the chain is contiguous
	aclSt, _ := space.AclStorage()
	head, _ := aclSt.Head(ctx)
	var last string
	prev := ""
	_ = aclSt.GetAfterOrder(ctx, 1, func(_ context.Context, r list.StorageRecord) (bool, error) {
		if r.PrevId != prev {
			problems = append(problems, fmt.Sprintf("acl record %s has prev %s, expected %s", r.Id, r.PrevId, prev))
		}
		prev, last = r.Id, r.Id
		return true, nil
	})
	if head != last {
		problems = append(problems, fmt.Sprintf("acl head %s is not the last stored record %s", head, last))
	}
	if acl.Head().Id != head {
		problems = append(problems, "rebuilt acl list head differs from storage head")
	}
	// every tree in the head storage: heads stored, parents and snapshot bases stored, order respects causality
	ids := []string{f.TreeRoot.Id}
	for _, id := range ids {
		st, err := space.TreeStorage(ctx, id)
		if err != nil {
			continue
		}
		stored := map[string]int{}
		var rows []objecttree.StorageChange
		_ = st.GetAfterOrder(ctx, "", func(_ context.Context, c objecttree.StorageChange) (bool, error) {
			stored[c.Id] = len(rows)
			rows = append(rows, c)
			return true, nil
		})
		for _, c := range rows {
			for _, p := range c.PrevIds {
				if pi, ok := stored[p]; !ok {
					problems = append(problems, fmt.Sprintf("tree %s: %s stored without parent %s", id, c.Id, p))
				} else if pi > stored[c.Id] {
					problems = append(problems, fmt.Sprintf("tree %s: %s ordered before its parent %s", id, c.Id, p))
				}
			}
			if c.SnapshotId != "" {
				if _, ok := stored[c.SnapshotId]; !ok {
					problems = append(problems, fmt.Sprintf("tree %s: %s stored without snapshot base %s", id, c.Id, c.SnapshotId))
				}
			}
		}
		hs, _ := st.Heads(ctx)
		for _, h := range hs {
			if _, ok := stored[h]; !ok {
				problems = append(problems, fmt.Sprintf("tree %s: recorded head %s is not stored", id, h))
			}
		}
		if id == f.TreeRoot.Id && tree != nil {
			th := append([]string{}, tree.Heads()...)
			sort.Strings(th)
			sort.Strings(hs)
			if strings.Join(th, ",") != strings.Join(hs, ",") {
				problems = append(problems, fmt.Sprintf("tree %s: rebuilt tree heads %v differ from recorded heads %v", id, th, hs))
			}
		}
	}
	return
}

func TestCheck(t *testing.T) {
	logger.SetDefault(zap.NewNop())
	logger.SetNamedLevels(logger.LevelsFromStr("*=fatal"))
	vk.Main(t, vk.Spec{
		Prop:  "C10",
		Level: "fault_enumeration",
		Rule: "for every operation of the workload (local add, local snapshot add, remote add of two changes, remote add forcing a rebuild from storage, ACL record add, tree delete, eager tree creation, deferred tree creation with changes; thorough: each from several predecessor states) every storage-call boundary it crosses is enumerated twice: as a crash image (copy of the database files taken right before the call, reopened) and as an injected error (the call fails; live object vs storage; retry); " +
			"evaluations = (operation, boundary, mode) cases; distinct_nontrivial = distinct (operation, boundary label, mode, outcome class)",
		Assumptions: []string{
			"SQLite's atomic commit is trusted: a copied database directory contains whole transactions only; torn writes inside SQLite files are not enumerated",
			"boundaries are the mutating calls of the anystore interfaces (begin, insert / upsert / update / delete, index / collection creation, commit)",
		},
		Shards: func(string) int { return 8 },
		Budget: func(tier string) time.Duration {
			if tier == "quick" {
				return 100 * time.Second
			}
			return 20 * time.Minute
		},
	}, body)
}

func body(c *vk.Ctx) {
	f, err := treesim.NewFixture(c.Seed)
	if err != nil {
		c.Broken("fixture: %v", err)
		return
	}
	all := ops()
	c.Bound("operations", len(all))
	if c.Replay != "" {
		// a violation names (operation, boundary, mode); the replay re-enumerates every boundary of that operation
		// (one operation takes about a second), or the two special families when the violation names no operation
		var rf struct {
			Case struct {
				Op string `json:"op"`
			} `json:"case"`
		}
		if err := vk.ReadJSON(c.Replay, &rf); err != nil {
			c.Broken("replay file: %v", err)
			return
		}
		if c.Shard != 0 {
			return
		}
		found := false
		for _, op := range all {
			if op.Name == rf.Case.Op {
				found = true
				runOp(c, f, op)
			}
		}
		if !found {
			refusedSnapshot(c, f)
			spaceCreate(c, f)
		}
		return
	}
	snapshotsTaken := 0
	for i, op := range all {
		if !c.Mine(i) {
			continue
		}
		snapshotsTaken += runOp(c, f, op)
	}
	_ = snapshotsTaken
	if c.Mine(len(all)) {
		refusedSnapshot(c, f)
	}
	if c.Mine(len(all) + 1) {
		spaceCreate(c, f)
	}
}

// refusedSnapshot: a local snapshot refused by the caller's change validator is a failed write without any storage
// call: the live tree must still agree with storage and accept the same input afterwards.
func refusedSnapshot(c *vk.Ctx, f *treesim.Fixture) {
	for _, snapshot := range []bool{true, false} {
		name := fmt.Sprintf("local-add-refused-by-validator(snapshot=%v)", snapshot)
		// fault-free reference
		ref := newEnv(c, f)
		ref.w.Edit(0, false)
		ref.w.Edit(0, false)
		if err := localAdd(ref, snapshot, nil); err != nil {
			c.Broken("%s: reference add fails: %v", name, err)
		}
		want, wantLive := dumpIgnoringSeq(subject(ref).DB), treeHeads(subject(ref))
		ref.w.Close()
		e := newEnv(c, f)
		e.w.Edit(0, false)
		e.w.Edit(0, false)
		before := treeHeads(subject(e))
		refuse := errors.New("refused by the validator")
		var err error
		if p, what := vk.Recover(func() { err = localAdd(e, snapshot, func(objecttree.StorageChange) error { return refuse }) }); p {
			c.Violation("panic-on-refused-add:"+vk.PanicSite(what), name+": "+what, nil)
			e.w.Close()
			continue
		}
		c.Count("executions", 2)
		c.Count("evaluations", 1)
		c.Distinct("distinct", name)
		if !errors.Is(err, refuse) {
			c.Violation("refused-add-not-reported", fmt.Sprintf("%s: the validator's error was not returned (%v)", name, err), nil)
		}
		if live := treeHeads(subject(e)); live != before || live != storedHeads(e, opSpec{}) {
			c.Violation("live-object-disagrees-with-storage:refused-add", fmt.Sprintf("%s: live heads [%s], before [%s], storage [%s]", name, shortList(live), shortList(before), shortList(storedHeads(e, opSpec{}))), nil)
		}
		var rerr error
		if p, what := vk.Recover(func() { rerr = localAdd(e, snapshot, nil) }); p {
			c.Violation("panic-on-retry:refused-add:"+vk.PanicSite(what), name+": retry: "+what, nil)
		} else if rerr != nil {
			c.Violation("retry-fails:refused-add", fmt.Sprintf("%s: the same content without the refusing validator fails: %v", name, rerr), nil)
		} else if got := dumpIgnoringSeq(subject(e).DB); got != want || treeHeads(subject(e)) != wantLive {
			c.Violation("retry-yields-different-state:refused-add", name+": after the retry the durable / live state differs from the fault-free result", nil)
		}
		e.w.Close()
	}
}

// spaceCreate enumerates the boundaries of spacestorage.Create on an empty database.
func spaceCreate(c *vk.Ctx, f *treesim.Fixture) {
	open := func() (string, anystore.DB, *faultstore.Ctl, anystore.DB) {
		dir, err := os.MkdirTemp(c.Scratch, "space-")
		if err != nil {
			panic(err)
		}
		db, err := anystore.Open(ctx, filepath.Join(dir, "db"), treesim.NewStoreCfg())
		if err != nil {
			panic(err)
		}
		ctl := faultstore.NewCtl()
		return dir, db, ctl, faultstore.Wrap(db, ctl)
	}
	dir, db, ctl, wdb := open()
	before := dump(db)
	ctl.Reset(-1, -1, nil)
	_, err := spacestorage.Create(ctx, wdb, f.Payload)
	ctl.Stop()
	if err != nil {
		c.Broken("space-create fails without faults: %v", err)
		return
	}
	labels := append([]string{}, ctl.Labels...)
	after := dump(db)
	db.Close()
	os.RemoveAll(dir)
	c.Bound("boundaries:space-create", strings.Join(labels, " | "))
	c.Sample(map[string]any{"operation": "space-create", "boundaries": labels})
	for k := range labels {
		where := fmt.Sprintf("space-create: boundary %d (%s)", k, labels[k])
		// crash image
		dir, db, ctl, wdb := open()
		var img string
		ctl.Reset(-1, k, func() { img, _ = treesim.CopyDir(dir, c.Scratch) })
		_, _ = spacestorage.Create(ctx, wdb, f.Payload)
		ctl.Stop()
		db.Close()
		os.RemoveAll(dir)
		c.Count("executions", 1)
		c.Count("evaluations", 1)
		if img != "" {
			idb, err := anystore.Open(ctx, filepath.Join(img, "db"), treesim.NewStoreCfg())
			if err != nil {
				c.Violation("crash-image-unreadable:space-create", where+": "+err.Error(), nil)
			} else {
				d := dump(idb)
				// an empty database may already contain empty collections / indexes: only documents count
				if docs(d) != docs(before) && docs(d) != docs(after) {
					c.Violation("crash-image-neither-before-nor-after:space-create:"+labels[k], where+": crash image holds a partial space: "+firstDiff(docs(d), docs(after)), nil)
				}
				if docs(d) == docs(after) {
					if _, err := spacestorage.New(ctx, f.SpaceId, idb); err != nil {
						c.Violation("crash-image-inconsistent:space-create", where+": complete image cannot be opened: "+err.Error(), nil)
					}
				}
				c.Distinct("distinct", "space-create|"+labels[k]+"|crash|"+fmt.Sprint(docs(d) == docs(after)))
				idb.Close()
			}
			os.RemoveAll(img)
		}
		// injected error, then retry
		dir, db, ctl, wdb = open()
		ctl.Reset(k, -1, nil)
		_, cerr := spacestorage.Create(ctx, wdb, f.Payload)
		ctl.Stop()
		c.Count("executions", 1)
		c.Count("evaluations", 1)
		d := dump(db)
		if cerr == nil && docs(d) != docs(after) {
			c.Violation("storage-error-swallowed:space-create:"+labels[k], where+": Create reported success but the space is not complete", nil)
		}
		if cerr != nil && docs(d) != docs(before) {
			c.Violation("storage-error-leaves-partial-state:space-create:"+labels[k], where+": Create failed but left documents behind: "+firstDiff(docs(d), docs(before)), nil)
		}
		c.Distinct("distinct", "space-create|"+labels[k]+"|error|"+fmt.Sprint(cerr != nil))
		db.Close()
		if cerr != nil {
			// the database handle is reopened for the retry: any-store keeps handles of collections whose creation was
			// rolled back (third-party behaviour, not any-sync's); what is judged is that the durable "before" state
			// accepts the same creation again
			rdb, err := anystore.Open(ctx, filepath.Join(dir, "db"), treesim.NewStoreCfg())
			if err != nil {
				c.Violation("retry-fails:space-create:reopen", where+": "+err.Error(), nil)
			} else {
				if _, rerr := spacestorage.Create(ctx, rdb, f.Payload); rerr != nil {
					c.Violation("retry-fails:space-create:"+labels[k], fmt.Sprintf("%s: creating the space again fails: %v", where, rerr), nil)
				} else if docs(dump(rdb)) != docs(after) {
					c.Violation("retry-yields-different-state:space-create:"+labels[k], where+": after the retry the space differs from the fault-free result", nil)
				}
				rdb.Close()
			}
		}
		os.RemoveAll(dir)
	}
}

// docs keeps only the document lines of a dump (collections that exist but are empty do not count as state).
func docs(d string) string {
	var o []string
	for _, l := range strings.Split(d, "\n") {
		if strings.HasPrefix(l, "{") {
			o = append(o, l)
		}
	}
	return strings.Join(o, "\n")
}

type baseline struct {
	labels []string
	before string
	after  string
	live   string
}

func runOp(c *vk.Ctx, f *treesim.Fixture, op opSpec) (snaps int) {
	// 1. fault-free counting run
	e := newEnv(c, f)
	op.Pre(e)
	var in any
	if op.Prepare != nil {
		in = op.Prepare(e)
	}
	b := baseline{before: dump(subject(e).DB)}
	e.ctl.Reset(-1, -1, nil)
	err := op.Do(e, in)
	e.ctl.Stop()
	c.Count("executions", 1)
	if err != nil {
		c.Broken("operation %s fails without any fault: %v", op.Name, err)
		e.w.Close()
		return
	}
	b.labels = append([]string{}, e.ctl.Labels...)
	b.after = dump(subject(e).DB)
	b.live = op.Live(e)
	e.w.Close()
	c.Bound("boundaries:"+op.Name, strings.Join(b.labels, " | "))
	if len(b.labels) == 0 {
		c.Broken("operation %s crossed no storage boundary", op.Name)
		return
	}
	if b.before == b.after {
		c.Broken("operation %s did not change the durable state", op.Name)
		return
	}
	c.Sample(map[string]any{"operation": op.Name, "boundaries": b.labels})
	for k := range b.labels {
		if c.TimeUp() {
			c.NotExhaustive("deadline inside operation " + op.Name)
			return
		}
		// 2. crash image right before boundary k
		{
			e := newEnv(c, f)
			op.Pre(e)
			var in any
			if op.Prepare != nil {
				in = op.Prepare(e)
			}
			var imgDir string
			e.ctl.Reset(-1, k, func() {
				d, err := treesim.CopyDir(subject(e).Dir, c.Scratch)
				if err != nil {
					panic(err)
				}
				imgDir = d
			})
			_ = op.Do(e, in)
			e.ctl.Stop()
			e.w.Close()
			c.Count("executions", 1)
			c.Count("evaluations", 1)
			where := fmt.Sprintf("%s: crash before boundary %d (%s)", op.Name, k, b.labels[k])
			if imgDir == "" {
				c.Broken("%s: no image was taken (boundary list not reproducible)", where)
			} else {
				snaps++
				problems, d := structural(f, imgDir)
				os.RemoveAll(imgDir)
				class := "other"
				switch d {
				case b.before:
					class = "before"
				case b.after:
					class = "after"
				}
				c.Distinct("distinct", op.Name+"|"+b.labels[k]+"|crash|"+class)
				if class == "other" {
					c.Violation("crash-image-neither-before-nor-after:"+op.Name+":"+b.labels[k], where+": the durable state is neither the state before the operation nor the state after it", map[string]any{"op": op.Name, "boundary": k, "mode": "crash"})
				}
				for _, p := range problems {
					c.Violation("crash-image-inconsistent:"+op.Name+":"+firstWords(p), where+": "+p, map[string]any{"op": op.Name, "boundary": k, "mode": "crash"})
				}
			}
		}
		// 3. injected error at boundary k
		{
			e := newEnv(c, f)
			op.Pre(e)
			var in any
			if op.Prepare != nil {
				in = op.Prepare(e)
			}
			e.ctl.Reset(k, -1, nil)
			var opErr error
			panicked, what := vk.Recover(func() { opErr = op.Do(e, in) })
			e.ctl.Stop()
			c.Count("executions", 1)
			c.Count("evaluations", 1)
			where := fmt.Sprintf("%s: error injected at boundary %d (%s)", op.Name, k, b.labels[k])
			rep := map[string]any{"op": op.Name, "boundary": k, "mode": "error"}
			if panicked {
				c.Violation("panic-on-storage-error:"+op.Name+":"+vk.PanicSite(what), where+": "+what, rep)
				e.w.Close()
				continue
			}
			durable := dump(subject(e).DB)
			class := "other"
			switch durable {
			case b.before:
				class = "before"
			case b.after:
				class = "after"
			}
			c.Distinct("distinct", op.Name+"|"+b.labels[k]+"|error|"+class+"|"+fmt.Sprint(opErr != nil))
			if class == "other" {
				c.Violation("storage-error-leaves-partial-state:"+op.Name+":"+b.labels[k], where+": the durable state is neither before nor after; vs before: "+firstDiff(durable, b.before)+"; vs after: "+firstDiff(durable, b.after), rep)
			}
			if opErr == nil && class != "after" {
				c.Violation("storage-error-swallowed:"+op.Name+":"+b.labels[k], where+": the operation reported success but the durable state is not the state after it", rep)
			}
			// live object agrees with storage
			if live := op.Live(e); op.Live != nil && b.live != "" {
				wantLive := storedHeads(e, op)
				if live != wantLive {
					c.Violation("live-object-disagrees-with-storage:"+op.Name+":"+b.labels[k], fmt.Sprintf("%s: live heads [%s], storage heads [%s] (operation error: %v)", where, shortList(live), shortList(wantLive), opErr), rep)
				}
			}
			// the same input again succeeds and yields the after state
			var retryErr error
			rp, rwhat := vk.Recover(func() { retryErr = op.Do(e, in) })
			c.Count("executions", 1)
			if rp {
				c.Violation("panic-on-retry:"+op.Name+":"+vk.PanicSite(rwhat), where+": retry: "+rwhat, rep)
			} else if retryErr != nil {
				c.Violation("retry-fails:"+op.Name+":"+b.labels[k], fmt.Sprintf("%s: the same input applied again fails: %v", where, retryErr), rep)
			} else if got := dumpIgnoringSeq(subject(e).DB); got != addSeq.ReplaceAllString(b.after, `"q":0`) {
				c.Violation("retry-yields-different-state:"+op.Name+":"+b.labels[k], where+": after retrying the same input the durable state differs from the fault-free result", rep)
			} else if op.Live != nil && b.live != "" && op.Live(e) != b.live {
				c.Violation("retry-live-state-differs:"+op.Name+":"+b.labels[k], fmt.Sprintf("%s: after the retry the live object reports [%s], fault-free run [%s]", where, shortList(op.Live(e)), shortList(b.live)), rep)
			}
			e.w.Close()
		}
	}
	return
}

// storedHeads reads what the storage records as heads / head for the operation's object.
func storedHeads(e *env, op opSpec) string {
	r := subject(e)
	if op.Name == "acl-add-record" {
		st, _ := r.Space.AclStorage()
		h, _ := st.Head(ctx)
		return h
	}
	ent, err := r.Space.HeadStorage().GetEntry(ctx, e.f.TreeRoot.Id)
	if err != nil {
		return "ERR:" + err.Error()
	}
	h := append([]string{}, ent.Heads...)
	sort.Strings(h)
	return strings.Join(h, ",")
}

// firstDiff shows where two dumps start to differ (diagnostics in violation texts).
func firstDiff(a, b string) string {
	la, lb := strings.Split(a, "\n"), strings.Split(b, "\n")
	for i := 0; i < len(la) || i < len(lb); i++ {
		var x, y string
		if i < len(la) {
			x = la[i]
		}
		if i < len(lb) {
			y = lb[i]
		}
		if x != y {
			k := 0
			for k < len(x) && k < len(y) && x[k] == y[k] {
				k++
			}
			cut := func(s string) string { return s[max(0, min(len(s), k)-40):min(len(s), k+80)] }
			return fmt.Sprintf("line %d of %d/%d: got …%s… want …%s…", i, len(la), len(lb), cut(x), cut(y))
		}
	}
	return "equal"
}

func shortList(s string) string {
	var o []string
	for _, id := range strings.Split(s, ",") {
		if len(id) > 8 {
			id = id[len(id)-6:]
		}
		o = append(o, id)
	}
	return strings.Join(o, ",")
}

func firstWords(s string) string {
	f := strings.Fields(s)
	var o []string
	for _, w := range f {
		if strings.HasPrefix(w, "bafy") {
			continue
		}
		o = append(o, w)
		if len(o) >= 6 {
			break
		}
	}
	return strings.Join(o, "-")
}

var _ = filepath.Join
var _ = synctree.ErrSyncTreeClosed
var _ = spacestorage.CName
var _ = recordverifier.NewValidateFull
