// C07 — the range-hash diff reports exactly the differing ids.
//
// Exhaustive input x configuration enumeration on the real ldiff index and the real wire adapters:
// a 6-id forced-collision universe (3 ids sharing 36 hash bits, 2 sharing 51, 1 unrelated), every id on each
// side one of {absent, head h1, head h2} => 729 x 729 ordered pairs of element sets; every pair is diffed with
// Diff and CompareDiff, for every (divideFactor, compareThreshold) of the grid, with indexes built fresh / by
// insert-then-update / by insert-extra-then-remove / by insert, remove, then insert the rest (churn), the remote side reached in process, through
// headsync.NewRemoteDiff -> DiffManager.HandleRangeRequest and through keyvalue.NewRemoteDiff ->
// keyvalue.HandleRangeRequest (both with a real MarshalVT/UnmarshalVT round trip of request and response).
// The oracle is the set-theoretic difference of the two contents maps.
package c07

import (
	"context"
	"errors"
	"fmt"
	"math"
	"os"
	"sort"
	"strings"
	"sync"
	"sync/atomic"
	"testing"
	"time"

	"github.com/anyproto/any-sync/app/ldiff"
	"github.com/anyproto/any-sync/app/logger"
	"github.com/anyproto/any-sync/commonspace/headsync"
	"github.com/anyproto/any-sync/commonspace/object/keyvalue"
	"github.com/anyproto/any-sync/commonspace/spacesyncproto"

	"verif/lib/ldu"
	"verif/lib/vk"
)

// ---------------------------------------------------------------------------------------------------
// universe, contents, reference

const (
	nIds   = 6
	nCodes = 729 // 3^6
	spaceA = "space-c07"
)

var (
	uni   []string
	idBit map[string]uint8
	heads = [3]string{"", "h1", "h2"}
	digit [nCodes][nIds]uint8
)

func init() {
	uni = append(uni, ldu.Triple...)
	uni = append(uni, ldu.Pair...)
	uni = append(uni, ldu.Loose[0])
	idBit = map[string]uint8{}
	for i, id := range uni {
		idBit[id] = 1 << uint(i)
	}
	for c := 0; c < nCodes; c++ {
		x := c
		for k := 0; k < nIds; k++ {
			digit[c][k] = uint8(x % 3)
			x /= 3
		}
	}
}

func contentsOfCode(code int) map[string]string {
	m := map[string]string{}
	for k := 0; k < nIds; k++ {
		if d := digit[code][k]; d != 0 {
			m[uni[k]] = heads[d]
		}
	}
	return m
}

func codeOfContents(m map[string]string) (int, bool) {
	code, mul := 0, 1
	n := 0
	for k := 0; k < nIds; k++ {
		switch m[uni[k]] {
		case "h1":
			code += mul
			n++
		case "h2":
			code += 2 * mul
			n++
		case "":
			if _, ok := m[uni[k]]; ok {
				return 0, false
			}
		default:
			return 0, false
		}
		mul *= 3
	}
	return code, n == len(m)
}

// expected result of the small universe, as bit masks over uni.
type masks struct{ nw, ch, our, their, rm uint8 }

func expectMasks(l, r int) (m masks) {
	for k := 0; k < nIds; k++ {
		a, b := digit[l][k], digit[r][k]
		bit := uint8(1) << uint(k)
		switch {
		case a == 0 && b != 0:
			m.nw |= bit
		case a != 0 && b == 0:
			m.rm |= bit
		case a != 0 && b != 0 && a != b:
			m.ch |= bit
			if heads[a] > heads[b] {
				m.our |= bit
			} else {
				m.their |= bit
			}
		}
	}
	return
}

// reference for arbitrary contents maps (large cases, replay): plain set theory.
type refResult struct{ New, Changed, Our, Their, Removed []string }

func reference(local, remote map[string]string) (r refResult) {
	for id, lh := range local {
		rh, ok := remote[id]
		switch {
		case !ok:
			r.Removed = append(r.Removed, id)
		case lh != rh:
			r.Changed = append(r.Changed, id)
			if lh > rh {
				r.Our = append(r.Our, id)
			} else {
				r.Their = append(r.Their, id)
			}
		}
	}
	for id := range remote {
		if _, ok := local[id]; !ok {
			r.New = append(r.New, id)
		}
	}
	sort.Strings(r.New)
	sort.Strings(r.Changed)
	sort.Strings(r.Our)
	sort.Strings(r.Their)
	sort.Strings(r.Removed)
	return
}

// ---------------------------------------------------------------------------------------------------
// building indexes

type param struct{ Df, Thr int }

func (p param) effDf() int {
	if p.Df < 2 {
		return 2
	}
	return p.Df
}

// roundsBound = ceil(64 / log2(df)) + 2: one round for the top range, at most ceil(64/log2 df) subdivision
// levels (each divides the span of the 64-bit hash space by df), one round fetching elements.
func roundsBound(p param) int {
	return int(math.Ceil(64/math.Log2(float64(p.effDf()))-1e-9)) + 2
}

const (
	modeFresh  = 0 // one Set call with the final contents
	modeUpdate = 1 // every id inserted with another head, then updated one by one
	modeRemove = 2 // inserted together with extra ids, extras removed afterwards
	// modeChurn: the ids of the collision triple and the extra ids (with a head the other side may hold too) are
	// inserted together, the extras are removed one by one (ranges merge back, possibly several levels at once), and
	// only then are the remaining ids added one by one (ranges divide again next to the merged ones)
	modeChurn = 3
	// modeGhost: filled in one call, then RemoveId is called for ids the index never held (callers ignore its error),
	// as many times as it holds elements
	modeGhost = 4
	nModes    = 5
)

var modeNames = [nModes]string{"fresh", "update", "remove", "churn", "ghost"}

func sortedIds(m map[string]string) []string {
	ids := make([]string, 0, len(m))
	for id := range m {
		ids = append(ids, id)
	}
	sort.Strings(ids)
	return ids
}

// buildIndex builds an index holding exactly `contents` through the given history shape. extras are ids not in
// contents used by modeRemove.
func buildIndex(p param, contents map[string]string, mode int, extras []string) ldiff.Diff {
	d := ldiff.New(p.Df, p.Thr)
	ids := sortedIds(contents)
	switch mode {
	case modeFresh:
		els := make([]ldiff.Element, 0, len(ids))
		for _, id := range ids {
			els = append(els, ldiff.Element{Id: id, Head: contents[id]})
		}
		d.Set(els...)
	case modeUpdate:
		els := make([]ldiff.Element, 0, len(ids))
		for _, id := range ids {
			other := "h1"
			if contents[id] == "h1" {
				other = "h2"
			}
			els = append(els, ldiff.Element{Id: id, Head: other})
		}
		d.Set(els...)
		for i := len(ids) - 1; i >= 0; i-- {
			d.Set(ldiff.Element{Id: ids[i], Head: contents[ids[i]]})
		}
	case modeRemove:
		els := make([]ldiff.Element, 0, len(ids)+len(extras))
		for _, id := range extras {
			els = append(els, ldiff.Element{Id: id, Head: "hx"})
		}
		for _, id := range ids {
			els = append(els, ldiff.Element{Id: id, Head: contents[id]})
		}
		d.Set(els...)
		for _, id := range extras {
			_ = d.RemoveId(id)
		}
	case modeGhost:
		els := make([]ldiff.Element, 0, len(ids))
		for _, id := range ids {
			els = append(els, ldiff.Element{Id: id, Head: contents[id]})
		}
		d.Set(els...)
		k := 0
		for _, id := range append(append([]string{}, uni...), "ghost-1", "ghost-2", "ghost-3", "ghost-4", "ghost-5", "ghost-6") {
			if _, ok := contents[id]; ok || k >= len(ids) {
				continue
			}
			_ = d.RemoveId(id)
			k++
		}
	case modeChurn:
		inTriple := map[string]bool{}
		for _, id := range ldu.Triple {
			inTriple[id] = true
		}
		// only extras from the universe, with a head of the universe: whatever a merge leaves behind then describes
		// contents the other side can really hold
		var own []string
		for _, id := range extras {
			if _, ok := idBit[id]; ok {
				own = append(own, id)
			}
		}
		extras = own
		els := make([]ldiff.Element, 0, len(ids)+len(extras))
		for _, id := range extras {
			els = append(els, ldiff.Element{Id: id, Head: "h1"})
		}
		var late []string
		for _, id := range ids {
			if inTriple[id] {
				els = append(els, ldiff.Element{Id: id, Head: contents[id]})
			} else {
				late = append(late, id)
			}
		}
		d.Set(els...)
		for _, id := range extras {
			_ = d.RemoveId(id)
		}
		for _, id := range late {
			d.Set(ldiff.Element{Id: id, Head: contents[id]})
		}
	}
	return d
}

func smallExtras(contents map[string]string) []string {
	var ex []string
	for _, id := range uni {
		if _, ok := contents[id]; !ok {
			ex = append(ex, id)
		}
	}
	return append(ex, ldu.Loose[1], ldu.Loose[2])
}

// ---------------------------------------------------------------------------------------------------
// remotes: counting wrapper + wire adapters with a real protobuf round trip

var errTooManyRounds = errors.New("c07: more Ranges rounds than ceil(64/log2(divideFactor))+2, diff cut off")

type countingRemote struct {
	inner  ldiff.Remote
	rounds int
	limit  int        // 0 = unlimited
	trace  ldiff.Diff // replay only: the local index; every round is printed with both sides' answers
	probe  ldiff.Diff // classification of a violating run: the local index; sig is set when a round held a range that
	sig    bool       // the local side answered without hash but with elements and the remote side without hash and empty
}

func (c *countingRemote) Ranges(ctx context.Context, ranges []ldiff.Range, resBuf []ldiff.RangeResult) ([]ldiff.RangeResult, error) {
	c.rounds++
	if c.limit > 0 && c.rounds > c.limit {
		// the property demands termination: a diff still asking after the bound is cut off and reported
		return nil, errTooManyRounds
	}
	if c.probe != nil {
		res, err := c.inner.Ranges(ctx, ranges, resBuf)
		mine, _ := c.probe.Ranges(ctx, ranges, nil)
		for i := range ranges {
			if i < len(mine) && i < len(res) && len(mine[i].Hash) == 0 && mine[i].Count > 0 && len(res[i].Hash) == 0 && res[i].Count == 0 {
				c.sig = true
			}
		}
		return res, err
	}
	if c.trace != nil {
		res, err := c.inner.Ranges(ctx, ranges, resBuf)
		mine, _ := c.trace.Ranges(ctx, ranges, nil)
		fmt.Printf("round %d (err=%v)\n", c.rounds, err)
		for i, rg := range ranges {
			fmt.Printf("  range %016x-%016x elements=%v\n", rg.From, rg.To, rg.Elements)
			if i < len(mine) {
				fmt.Printf("    local : count=%d hash=%x elements=%v\n", mine[i].Count, mine[i].Hash, mine[i].Elements)
			}
			if i < len(res) {
				fmt.Printf("    remote: count=%d hash=%x elements=%v\n", res[i].Count, res[i].Hash, res[i].Elements)
			}
		}
		return res, err
	}
	return c.inner.Ranges(ctx, ranges, resBuf)
}

var errWrongSpace = errors.New("c07 fake server: request for an unknown space id")

// hsClient is the head-sync peer: request bytes -> DiffManager.HandleRangeRequest on the real index -> response bytes.
type hsClient struct {
	target *headsync.DiffManager
	calls  int64
}

func (c *hsClient) HeadSync(ctx context.Context, in *spacesyncproto.HeadSyncRequest) (*spacesyncproto.HeadSyncResponse, error) {
	c.calls++
	b, err := in.MarshalVT()
	if err != nil {
		return nil, err
	}
	req := &spacesyncproto.HeadSyncRequest{}
	if err = req.UnmarshalVT(b); err != nil {
		return nil, err
	}
	if req.SpaceId != spaceA {
		return nil, errWrongSpace
	}
	resp, err := c.target.HandleRangeRequest(ctx, req)
	if err != nil {
		return nil, err
	}
	rb, err := resp.MarshalVT()
	if err != nil {
		return nil, err
	}
	out := &spacesyncproto.HeadSyncResponse{}
	if err = out.UnmarshalVT(rb); err != nil {
		return nil, err
	}
	return out, nil
}

// kvClient is the key-value peer.
type kvClient struct {
	target ldiff.Diff
	calls  int64
}

func (c *kvClient) StoreDiff(ctx context.Context, in *spacesyncproto.StoreDiffRequest) (*spacesyncproto.StoreDiffResponse, error) {
	c.calls++
	b, err := in.MarshalVT()
	if err != nil {
		return nil, err
	}
	req := &spacesyncproto.StoreDiffRequest{}
	if err = req.UnmarshalVT(b); err != nil {
		return nil, err
	}
	if req.SpaceId != spaceA {
		return nil, errWrongSpace
	}
	resp, err := keyvalue.HandleRangeRequest(ctx, c.target, req)
	if err != nil {
		return nil, err
	}
	rb, err := resp.MarshalVT()
	if err != nil {
		return nil, err
	}
	out := &spacesyncproto.StoreDiffResponse{}
	if err = out.UnmarshalVT(rb); err != nil {
		return nil, err
	}
	return out, nil
}

const (
	trInproc = 0
	trHs     = 1
	trKv     = 2
)

var trNames = [3]string{"inproc", "wire-headsync", "wire-keyvalue"}

func newDM(d ldiff.Diff) *headsync.DiffManager {
	return headsync.NewDiffManager(d, nil, nil, logger.CtxLogger{}, context.Background(), nil)
}

// link holds one worker's reusable remotes.
type link struct {
	hs   *hsClient
	kv   *kvClient
	hsRd ldiff.Remote
	kvRd ldiff.Remote
	cr   countingRemote
	lim  int // rounds after which a diff is cut off (0 = never)
}

func newLink() *link {
	l := &link{hs: &hsClient{}, kv: &kvClient{}}
	l.hsRd = headsync.NewRemoteDiff(spaceA, l.hs)
	l.kvRd = keyvalue.NewRemoteDiff(spaceA, l.kv)
	return l
}

// remote points the link at index d (dm = its DiffManager, may be nil => created) and returns the counted remote.
func (l *link) remote(tr int, d ldiff.Diff, dm *headsync.DiffManager) *countingRemote {
	switch tr {
	case trInproc:
		l.cr.inner = d
	case trHs:
		if dm == nil {
			dm = newDM(d)
		}
		l.hs.target = dm
		l.cr.inner = l.hsRd
	case trKv:
		l.kv.target = d
		l.cr.inner = l.kvRd
	}
	l.cr.rounds = 0
	l.cr.limit = l.lim
	return &l.cr
}

// hashlessSkip re-runs a violating diff with a probe and reports whether some round compared a range for which the
// local index holds no division (answered with its elements and WITHOUT hash) with an empty remote range (no hash
// either). It only refines the key of a "removed-missing" violation, it is no oracle.
const hashlessKey = "/hashless-local-range-vs-empty-remote-range"

func hashlessSkip(tr int, local, remote ldiff.Diff, variant string) (sig bool) {
	lk := newLink()
	lk.lim = 200
	rem := lk.remote(tr, remote, nil)
	rem.probe = local
	vk.Recover(func() {
		if variant == "Diff" {
			_, _, _, _ = local.Diff(context.Background(), rem)
		} else {
			_, _, _, _, _ = local.(ldiff.CompareDiff).CompareDiff(context.Background(), rem)
		}
	})
	return rem.sig
}

// ---------------------------------------------------------------------------------------------------
// replayable case

type smallCase struct {
	Kind      string            `json:"kind"` // "small" | "large" | "cancel"
	Df        int               `json:"df"`
	Thr       int               `json:"thr"`
	RDf       int               `json:"remote_df,omitempty"`  // tuning of the remote index when it differs from the local one
	RThr      int               `json:"remote_thr,omitempty"`
	Left      map[string]string `json:"left,omitempty"`
	Right     map[string]string `json:"right,omitempty"`
	LeftMode  string            `json:"left_mode,omitempty"`
	RightMode string            `json:"right_mode,omitempty"`
	Transport string            `json:"transport"`
	Variant   string            `json:"variant"` // Diff | CompareDiff
	Large     string            `json:"large,omitempty"`
	Swap      bool              `json:"swap,omitempty"`
}

func modeIdx(name string) int {
	for i, n := range modeNames {
		if n == name {
			return i
		}
	}
	return 0
}

func trIdx(name string) int {
	for i, n := range trNames {
		if n == name {
			return i
		}
	}
	return 0
}

// ---------------------------------------------------------------------------------------------------
// comparing one small-universe result with the reference

func toMask(ids []string) (m uint8, bad string) {
	for _, id := range ids {
		b, ok := idBit[id]
		if !ok {
			return m, "unknown-id"
		}
		if m&b != 0 {
			return m, "duplicate-id"
		}
		m |= b
	}
	return m, ""
}

func maskIds(m uint8) []string {
	var out []string
	for k := 0; k < nIds; k++ {
		if m&(1<<uint(k)) != 0 {
			out = append(out, uni[k])
		}
	}
	return out
}

func listKind(name string, got, want uint8) string {
	if got == want {
		return ""
	}
	if want&^got != 0 {
		return name + "-missing"
	}
	return name + "-extra"
}

// ---------------------------------------------------------------------------------------------------

type job struct {
	lmode, rmode int
	tr           int
	stride       int // 0: all pairs; n: only pairs selected by inSubset(l, r, n)
}

// inSubset is the deterministic subset used where a job does not cover all pairs in the quick tier:
// both sides non-empty and different, and (l + 7r) mod stride == 0.
func inSubset(l, r, stride int) bool {
	if stride == 0 {
		return true
	}
	if l == 0 || r == 0 || l == r {
		return false
	}
	return (l+7*r)%stride == 0
}

type wstats struct {
	maxRounds int
	maxRank   [6]int
	maxCase   *smallCase
	fourRank  [6]int
	fourCase  *smallCase
}

type stats = wstats

type runner struct {
	c           *vk.Ctx
	params      []param
	mu          sync.Mutex
	maxByDf     map[string]int
	st          stats
	nViol       atomic.Int64
	viol        map[string]*vrec
	violByParam map[string]int64
}

type vrec struct {
	rank [6]int
	what string
	cs   *smallCase
	n    int64
}

func rankOf(cs *smallCase, pi, l, rr int) [6]int {
	return [6]int{len(cs.Left) + len(cs.Right), pi, trIdx(cs.Transport), modeIdx(cs.LeftMode) + modeIdx(cs.RightMode), l, rr}
}

func b2i(b bool) int {
	if b {
		return 1
	}
	return 0
}

func (r *runner) pidx(p param) int {
	for i, q := range r.params {
		if q == p {
			return i
		}
	}
	return len(r.params)
}

func rankLess(a, b [6]int) bool {
	for i := range a {
		if a[i] != b[i] {
			return a[i] < b[i]
		}
	}
	return false
}

// violation records a violating run; per key only the smallest case (fewest elements, then enumeration order) is
// reported at the end, so that the reported example is deterministic and minimal.
func (r *runner) violation(key string, p param, rank [6]int, what string, cs *smallCase) {
	r.nViol.Add(1)
	r.mu.Lock()
	defer r.mu.Unlock()
	r.violByParam[fmt.Sprintf("(%d,%d)", p.Df, p.Thr)]++
	v := r.viol[key]
	if v == nil {
		v = &vrec{rank: rank, what: what, cs: cs}
		r.viol[key] = v
	} else if rankLess(rank, v.rank) {
		v.rank, v.what, v.cs = rank, what, cs
	}
	v.n++
}

// asymmetric: the two sides are tuned differently ("any two head indexes and any tuning parameters"): fresh indexes,
// in process, both variants; quick = the pair subset of stride 9, thorough = all pairs.
func (r *runner) asymmetric() {
	c := r.c
	pairs := [][2]param{
		{{2, 1}, {2, 4}}, {{2, 4}, {2, 1}}, {{2, 1}, {16, 4}}, {{16, 4}, {2, 1}}, {{3, 2}, {2, 1}}, {{2, 1}, {3, 2}}, {{16, 4}, {3, 2}}, {{2, 2}, {2, 1}}, {{2, 1}, {2, 2}},
	}
	stride := vk.Pick(c, 9, 0)
	c.Bound("asymmetric_parameter_pairs", len(pairs))
	built := map[param][]ldiff.Diff{}
	index := func(p param) []ldiff.Diff {
		if built[p] == nil {
			l := make([]ldiff.Diff, nCodes)
			for code := 0; code < nCodes; code++ {
				l[code] = buildIndex(p, contentsOfCode(code), modeFresh, nil)
			}
			built[p] = l
		}
		return built[p]
	}
	for pi, pr := range pairs {
		lp, rp := pr[0], pr[1]
		li, ri := index(lp), index(rp)
		var wg sync.WaitGroup
		var next atomic.Int64
		var evals atomic.Int64
		for w := 0; w < 16; w++ {
			wg.Add(1)
			go func() {
				defer wg.Done()
				lk := newLink()
				for {
					l := int(next.Add(1) - 1)
					if l >= nCodes || c.TimeUp() {
						return
					}
					for rr := 0; rr < nCodes; rr++ {
						if !inSubset(l, rr, stride) {
							continue
						}
						for _, variant := range []string{"Diff", "CompareDiff"} {
							var kind, desc string
							lc, rc := contentsOfCode(l), contentsOfCode(rr)
							panicked, what := vk.Recover(func() {
								// generous round bound: the deeper of the two tunings
								bp := lp
								if roundsBound(rp) > roundsBound(bp) {
									bp = rp
								}
								kind, desc, _, _, _ = checkGeneric(lk, bp, trInproc, li[l], ri[rr], lc, rc, variant)
							})
							evals.Add(1)
							if panicked {
								kind, desc = "panic", what
							}
							if kind != "" {
								cs := &smallCase{Kind: "small", Df: lp.Df, Thr: lp.Thr, RDf: rp.Df, RThr: rp.Thr, Left: lc, Right: rc, LeftMode: "fresh", RightMode: "fresh", Transport: "inproc", Variant: variant}
								r.violation(variant+" inproc asymmetric-tuning "+kind, lp, [6]int{len(lc) + len(rc), 100 + pi, 0, 0, l, rr},
									fmt.Sprintf("local df=%d thr=%d, remote df=%d thr=%d: local=%v remote=%v: %s", lp.Df, lp.Thr, rp.Df, rp.Thr, lc, rc, desc), cs)
							}
						}
					}
				}
			}()
		}
		wg.Wait()
		c.Count("evaluations", evals.Load())
		c.Count("executions", evals.Load())
		c.Count("asymmetric_evaluations", evals.Load())
		if c.TimeUp() {
			c.NotExhaustive("deadline reached in the asymmetric-tuning sub-check")
			return
		}
	}
}

func (r *runner) flushViolations() {
	keys := make([]string, 0, len(r.viol))
	for k := range r.viol {
		keys = append(keys, k)
	}
	sort.Strings(keys)
	for _, k := range keys {
		v := r.viol[k]
		r.c.Violation(k, fmt.Sprintf("%s [%d violating runs of this class; the smallest is shown]", v.what, v.n), v.cs)
	}
	if len(r.violByParam) > 0 {
		r.c.Bound("violating_runs_by_params", r.violByParam)
	}
	r.c.Count("violating_runs", r.nViol.Load())
}

// mergeStats folds one worker's observations in; ties are broken by enumeration rank so that the sampled cases
// are the same in every run.
func (r *runner) mergeStats(p param, w *wstats) {
	r.mu.Lock()
	defer r.mu.Unlock()
	k := fmt.Sprintf("df=%d", p.effDf())
	if w.maxRounds > r.maxByDf[k] {
		r.maxByDf[k] = w.maxRounds
	}
	if w.maxCase != nil && (w.maxRounds > r.st.maxRounds || w.maxRounds == r.st.maxRounds && rankLess(w.maxRank, r.st.maxRank)) {
		r.st.maxRounds, r.st.maxRank, r.st.maxCase = w.maxRounds, w.maxRank, w.maxCase
	}
	if w.fourCase != nil && (r.st.fourCase == nil || rankLess(w.fourRank, r.st.fourRank)) {
		r.st.fourRank, r.st.fourCase = w.fourRank, w.fourCase
	}
}

func TestCheck(t *testing.T) {
	vk.Main(t, vk.Spec{
		Prop:  "C07",
		Level: "exploration",
		Rule: "exhaustive enumeration of all 3^6 x 3^6 ordered pairs of element sets over a 6-id forced-collision universe " +
			"(3 ids sharing a 36-bit xxhash prefix, 2 sharing 51 bits, 1 unrelated; each id absent / head h1 / head h2 per side) " +
			"x (divideFactor, compareThreshold) grid x index build history (fresh, insert-then-update, insert-extra-then-remove, churn = insert-remove-then-insert, ghost = fresh + RemoveId of ids never held) " +
			"x transport (in process, headsync.NewRemoteDiff->DiffManager.HandleRangeRequest, keyvalue.NewRemoteDiff->HandleRangeRequest, " +
			"both with MarshalVT/UnmarshalVT of request and response) x {Diff, CompareDiff}, plus fixed large cases; " +
			"evaluations = diff runs compared with the set-theoretic reference; distinct_nontrivial = distinct non-empty outcomes " +
			"(sorted new/changed|ours/theirs/removed lists + variant + parameters)",
		Assumptions: []string{
			"ids of the exhaustive part are drawn from a 6-element universe chosen to force deep range splitting; heads from {h1,h2}",
			"no two distinct ids share a full 64-bit xxhash (the recursion bound presupposes that hashes can be separated)",
			"the wire peer is a fake client that serialises the request, calls the real HandleRangeRequest on the real remote index and serialises the response; it refuses requests whose space id is not the adapter's",
			"termination is checked as a counter: number of Ranges rounds <= ceil(64/log2(divideFactor)) + 2",
		},
		Budget: func(tier string) time.Duration {
			if tier == "quick" {
				return 80 * time.Second
			}
			return 27 * time.Minute
		},
	}, body)
}

func gridParams(c *vk.Ctx) (full []param) {
	if c.Quick() {
		// quick sub-grid: deepest splitting (2,1), (16,4), a non-power-of-two factor (3,2) and the clamped (0,0)
		return []param{{2, 1}, {16, 4}, {3, 2}, {0, 0}}
	}
	// proper values first, production values, then the pairs with a clamped value (0 => 2 / 0 => 1)
	for _, df := range []int{2, 3, 16} {
		for _, thr := range []int{1, 2, 4} {
			full = append(full, param{df, thr})
		}
	}
	full = append(full, param{32, 256})
	for _, df := range []int{2, 3, 16, 0} {
		for _, thr := range []int{1, 2, 4, 0} {
			if df == 0 || thr == 0 {
				full = append(full, param{df, thr})
			}
		}
	}
	return
}

// jobsFor lists what is enumerated for one parameter pair: (left history, right history, transport, stride);
// stride 0 = all 531441 pairs, stride n = the deterministic subset inSubset(l, r, n).
func jobsFor(c *vk.Ctx, p param) (jobs []job) {
	F, U, R, C, G := modeFresh, modeUpdate, modeRemove, modeChurn, modeGhost
	if c.Quick() {
		switch p {
		case param{2, 1}: // the expensive one (up to 54 rounds per diff)
			return []job{{F, F, trInproc, 0}, {U, R, trInproc, 9}, {R, U, trInproc, 9},
				{F, F, trHs, 27}, {F, F, trKv, 27}, {U, R, trHs, 27}, {R, U, trKv, 27}, {C, F, trInproc, 9}, {R, C, trHs, 27}, {G, F, trInproc, 9}, {F, G, trKv, 27}}
		case param{16, 4}:
			return []job{{F, F, trInproc, 0}, {U, R, trInproc, 3}, {R, U, trInproc, 3},
				{F, F, trHs, 9}, {F, F, trKv, 9}, {U, R, trHs, 9}, {R, U, trKv, 9}, {C, F, trInproc, 3}, {F, C, trKv, 9}, {G, F, trInproc, 3}, {F, G, trHs, 9}}
		case param{3, 2}:
			return []job{{F, F, trInproc, 0}, {U, U, trInproc, 9}, {R, R, trInproc, 9}, {U, F, trHs, 27}, {F, R, trKv, 27}, {C, C, trInproc, 9}, {C, U, trHs, 27}, {G, G, trInproc, 9}, {U, G, trKv, 27}}
		default: // (0,0) behaves as (2,1): only the clamping is of interest
			return []job{{F, F, trInproc, 9}, {U, R, trInproc, 27}, {F, F, trHs, 81}, {F, F, trKv, 81}, {C, F, trInproc, 27}, {G, F, trInproc, 27}}
		}
	}
	if p.Df == 0 || p.Thr == 0 {
		// a clamped value behaves as its clamp target (which is enumerated in full): three history combinations in
		// process and both wire adapters, all pairs
		return []job{{F, F, trInproc, 0}, {U, R, trInproc, 0}, {R, U, trInproc, 0}, {F, F, trHs, 0}, {F, F, trKv, 0}, {C, F, trInproc, 0}, {G, F, trInproc, 0}, {F, G, trInproc, 0}}
	}
	for lm := 0; lm < nModes; lm++ {
		for rm := 0; rm < nModes; rm++ {
			jobs = append(jobs, job{lm, rm, trInproc, 0})
		}
	}
	for _, tr := range []int{trHs, trKv} {
		jobs = append(jobs, job{F, F, tr, 0}, job{U, R, tr, 0}, job{R, U, tr, 0}, job{C, F, tr, 0}, job{F, G, tr, 0})
	}
	return
}

func describeJobs(p param, jobs []job) string {
	var parts []string
	for _, jb := range jobs {
		sub := "all pairs"
		if jb.stride > 0 {
			sub = fmt.Sprintf("subset 1/%d", jb.stride)
		}
		parts = append(parts, fmt.Sprintf("%s/%s %s %s", modeNames[jb.lmode], modeNames[jb.rmode], trNames[jb.tr], sub))
	}
	return strings.Join(parts, "; ")
}

// ballast: never touched (so never resident); it raises the heap goal so that the GC runs once per ~0.5 GB of
// allocation instead of once per few MB (the live heap is tiny while every diff allocates its result lists).
var ballast []byte

func body(c *vk.Ctx) {
	ballast = make([]byte, 512<<20)
	c.Require(ldu.SharedPrefix(ldu.Triple...) >= 36 && ldu.SharedPrefix(ldu.Pair...) >= 51, "id universe lost its hash-prefix collisions")
	if c.Replay != "" {
		replay(c)
		return
	}
	params := gridParams(c)
	r := &runner{c: c, params: params, maxByDf: map[string]int{}, viol: map[string]*vrec{}, violByParam: map[string]int64{}}
	var ps []string
	for _, p := range params {
		ps = append(ps, fmt.Sprintf("(%d,%d)", p.Df, p.Thr))
	}
	c.Bound("universe_ids", nIds)
	c.Bound("element_set_pairs", nCodes*nCodes)
	c.Bound("param_pairs", strings.Join(ps, " "))
	plan := map[string]string{}
	for _, p := range params {
		plan[fmt.Sprintf("(%d,%d)", p.Df, p.Thr)] = describeJobs(p, jobsFor(c, p))
	}
	if c.Quick() {
		c.Bound("quick_subgrid", plan)
		c.Bound("subset_definition", "subset 1/n = pairs (l,r) of content codes with both sides non-empty, l != r and (l+7r) mod n == 0; both variants on every selected pair")
	} else {
		c.Bound("thorough_grid", map[string]string{
			"divideFactor in {2,3,16} x threshold in {1,2,4}, and (32,256)": describeJobs(params[0], jobsFor(c, params[0])),
			"pairs with a clamped 0": describeJobs(param{0, 0}, jobsFor(c, param{0, 0})),
		})
	}
	rb := map[string]int{}
	for _, p := range params {
		rb[fmt.Sprintf("df=%d", p.effDf())] = roundsBound(p)
	}
	c.Bound("rounds_bound", rb)

	// the fixed large cases first (seconds), so that a deadline can never skip them
	t0 := time.Now()
	r.largeCases()
	fmt.Fprintf(os.Stderr, "c07: large cases in %v\n", time.Since(t0).Round(time.Millisecond))

	// first (bounded, and the grid below takes whatever time is left in the thorough tier)
	r.asymmetric()
	stopped := false
	for pi, p := range params {
		if c.TimeUp() {
			stopped = true
			break
		}
		t0 := time.Now()
		ok := r.runParam(pi, p, jobsFor(c, p))
		fmt.Fprintf(os.Stderr, "c07: params (%d,%d) enumerated in %v\n", p.Df, p.Thr, time.Since(t0).Round(time.Millisecond))
		if !ok {
			stopped = true
			break
		}
		r.cancelCheck(p)
	}
	if stopped {
		c.NotExhaustive("deadline reached before all parameter pairs were enumerated")
	}

	r.flushViolations()
	c.Bound("rounds_max", r.maxByDf)
	if r.st.maxCase != nil {
		c.Sample(map[string]any{"what": "diff with the most Ranges rounds", "rounds": r.st.maxRounds, "case": r.st.maxCase})
	}
	if r.st.fourCase != nil {
		c.Sample(map[string]any{"what": "all four result lists non-empty", "case": r.st.fourCase})
	}
	if !stopped {
		// a PASS must not be vacuous; when violations were found the depth reached by a broken recursion is no harness matter
		c.Require(r.st.maxRounds >= 30 || r.nViol.Load() > 0, "vacuity: no diff needed >= 30 rounds (max %d): deep splitting did not happen", r.st.maxRounds)
		c.Require(r.st.fourCase != nil, "vacuity: no case with all four result lists non-empty")
		c.Require(c.Counter("wire_requests").Load() > 0, "vacuity: the wire adapters were never used")
	}
}

// runParam enumerates all jobs of one parameter pair. Returns false when the deadline stopped it.
func (r *runner) runParam(pi int, p param, jobs []job) bool {
	c := r.c
	// build the 729 indexes once per build mode (Diff mutates neither side)
	var idx [nModes][]ldiff.Diff
	var dms [nModes][]*headsync.DiffManager
	for m := 0; m < nModes; m++ {
		idx[m] = make([]ldiff.Diff, nCodes)
		dms[m] = make([]*headsync.DiffManager, nCodes)
	}
	var wg sync.WaitGroup
	var next atomic.Int64
	var buildFailed atomic.Bool
	for w := 0; w < 16; w++ {
		wg.Add(1)
		go func() {
			defer wg.Done()
			for {
				code := int(next.Add(1) - 1)
				if code >= nCodes {
					return
				}
				cont := contentsOfCode(code)
				for m := 0; m < nModes; m++ {
					if panicked, what := vk.Recover(func() {
						idx[m][code] = buildIndex(p, cont, m, smallExtras(cont))
						dms[m][code] = newDM(idx[m][code])
					}); panicked {
						buildFailed.Store(true)
						r.violation("panic building the index", p, [6]int{len(cont), pi, 0, m, code}, fmt.Sprintf("df=%d thr=%d: building %v (history %s): %s", p.Df, p.Thr, cont, modeNames[m], what),
							&smallCase{Kind: "small", Df: p.Df, Thr: p.Thr, Left: cont, Right: cont, LeftMode: modeNames[m], RightMode: modeNames[m], Transport: "inproc", Variant: "Diff"})
					}
				}
			}
		}()
	}
	wg.Wait()
	if buildFailed.Load() {
		return true // nothing to diff for this parameter pair: the violation is recorded
	}
	// sanity: the three histories hold the same contents
	for code := 0; code < nCodes; code += 91 {
		for m := 0; m < nModes; m++ {
			if idx[m][code].Len() != len(contentsOfCode(code)) {
				c.Broken("harness: index built in mode %s for code %d holds %d elements", modeNames[m], code, idx[m][code].Len())
				return false
			}
		}
	}

	bound := roundsBound(p)
	next.Store(0)
	var timeUp atomic.Bool
	for w := 0; w < 16; w++ {
		wg.Add(1)
		go func() {
			defer wg.Done()
			lk := newLink()
			lk.lim = bound
			seen := map[uint64]struct{}{}
			ctx := context.Background()
			var ws wstats
			defer func() { r.mergeStats(p, &ws) }()
			for {
				l := int(next.Add(1) - 1)
				if l >= nCodes || timeUp.Load() {
					return
				}
				if c.TimeUp() {
					timeUp.Store(true)
					return
				}
				var evals, wireReq int64
				curJ, curJob := -1, job{}
				mkCase := func(jb job, rr int, variant string) *smallCase {
					return &smallCase{Kind: "small", Df: p.Df, Thr: p.Thr, Left: contentsOfCode(l), Right: contentsOfCode(rr),
						LeftMode: modeNames[jb.lmode], RightMode: modeNames[jb.rmode], Transport: trNames[jb.tr], Variant: variant}
				}
				panicked, what := vk.Recover(func() {
					for ji, jb := range jobs {
						curJob = jb
						local := idx[jb.lmode][l]
						cmp := local.(ldiff.CompareDiff)
						for k := 0; k < nCodes; k++ {
							rr := (k + l*37) % nCodes // staggered start: workers touch different remote indexes
							if !inSubset(l, rr, jb.stride) {
								continue
							}
							curJ = rr
							exp := expectMasks(l, rr)
							// --- Diff
							rem := lk.remote(jb.tr, idx[jb.rmode][rr], dms[jb.rmode][rr])
							nw, ch, rm, err := local.Diff(ctx, rem)
							rounds := rem.rounds
							evals++
							kind := ""
							var gn, gc, gr, gt uint8
							if errors.Is(err, errTooManyRounds) {
								kind = "rounds-exceeded"
							} else if err != nil {
								kind = "error"
							} else {
								var b1, b2, b3 string
								gn, b1 = toMask(nw)
								gc, b2 = toMask(ch)
								gr, b3 = toMask(rm)
								switch {
								case b1 != "":
									kind = "new-" + b1
								case b2 != "":
									kind = "changed-" + b2
								case b3 != "":
									kind = "removed-" + b3
								case listKind("new", gn, exp.nw) != "":
									kind = listKind("new", gn, exp.nw)
								case listKind("changed", gc, exp.ch) != "":
									kind = listKind("changed", gc, exp.ch)
								case listKind("removed", gr, exp.rm) != "":
									kind = listKind("removed", gr, exp.rm)
								case rounds > bound:
									kind = "rounds-exceeded"
								}
							}
							if kind != "" {
								cs := mkCase(jb, rr, "Diff")
								if kind == "removed-missing" && hashlessSkip(jb.tr, local, idx[jb.rmode][rr], "Diff") {
									kind += hashlessKey
								}
								r.violation("Diff "+trNames[jb.tr]+" "+kind, p, rankOf(cs, pi, l, rr),
									fmt.Sprintf("df=%d thr=%d %s: local(%s)=%v remote(%s)=%v: Diff returned new=%v changed=%v removed=%v err=%v in %d rounds (bound %d); expected new=%v changed=%v removed=%v",
										p.Df, p.Thr, trNames[jb.tr], modeNames[jb.lmode], cs.Left, modeNames[jb.rmode], cs.Right, nw, ch, rm, err, rounds, bound,
										maskIds(exp.nw), maskIds(exp.ch), maskIds(exp.rm)), cs)
							} else if gn|gc|gr != 0 {
								key := uint64(pi)<<40 | uint64(gn)<<18 | uint64(gc)<<12 | uint64(gr)
								if _, ok := seen[key]; !ok {
									seen[key] = struct{}{}
									c.DistinctH("distinct", key)
								}
							}
							if rk := [6]int{pi, l, ji, rr, 0}; rounds > ws.maxRounds || rounds == ws.maxRounds && rankLess(rk, ws.maxRank) {
								ws.maxRounds, ws.maxRank, ws.maxCase = rounds, rk, mkCase(jb, rr, "Diff")
							}
							// --- CompareDiff
							if exp.nw != 0 && exp.our != 0 && exp.their != 0 && exp.rm != 0 {
								// vacuity guard on the INPUT: all four result lists have to be non-empty for this pair
								if rk := [6]int{pi, l, ji, rr, 1}; ws.fourCase == nil || rankLess(rk, ws.fourRank) {
									ws.fourRank, ws.fourCase = rk, mkCase(jb, rr, "CompareDiff")
								}
							}
							rem = lk.remote(jb.tr, idx[jb.rmode][rr], dms[jb.rmode][rr])
							nw, our, their, rm, err := cmp.CompareDiff(ctx, rem)
							rounds = rem.rounds
							evals++
							kind = ""
							var go_ uint8
							if errors.Is(err, errTooManyRounds) {
								kind = "rounds-exceeded"
							} else if err != nil {
								kind = "error"
							} else {
								var b1, b2, b3, b4 string
								gn, b1 = toMask(nw)
								go_, b2 = toMask(our)
								gt, b3 = toMask(their)
								gr, b4 = toMask(rm)
								switch {
								case b1 != "":
									kind = "new-" + b1
								case b2 != "":
									kind = "ours-" + b2
								case b3 != "":
									kind = "theirs-" + b3
								case b4 != "":
									kind = "removed-" + b4
								case go_&gt != 0:
									kind = "changed-in-both-lists"
								case listKind("new", gn, exp.nw) != "":
									kind = listKind("new", gn, exp.nw)
								case go_|gt != exp.ch:
									kind = listKind("changed", go_|gt, exp.ch)
								case go_ != exp.our || gt != exp.their:
									kind = "changed-split-wrong"
								case listKind("removed", gr, exp.rm) != "":
									kind = listKind("removed", gr, exp.rm)
								case rounds > bound:
									kind = "rounds-exceeded"
								}
							}
							if kind != "" {
								cs := mkCase(jb, rr, "CompareDiff")
								if kind == "removed-missing" && hashlessSkip(jb.tr, local, idx[jb.rmode][rr], "CompareDiff") {
									kind += hashlessKey
								}
								r.violation("CompareDiff "+trNames[jb.tr]+" "+kind, p, rankOf(cs, pi, l, rr),
									fmt.Sprintf("df=%d thr=%d %s: local(%s)=%v remote(%s)=%v: CompareDiff returned new=%v ours=%v theirs=%v removed=%v err=%v in %d rounds (bound %d); expected new=%v ours=%v theirs=%v removed=%v",
										p.Df, p.Thr, trNames[jb.tr], modeNames[jb.lmode], cs.Left, modeNames[jb.rmode], cs.Right, nw, our, their, rm, err, rounds, bound,
										maskIds(exp.nw), maskIds(exp.our), maskIds(exp.their), maskIds(exp.rm)), cs)
							} else if gn|go_|gt|gr != 0 {
								key := uint64(pi)<<40 | 1<<39 | uint64(gn)<<18 | uint64(go_)<<12 | uint64(gt)<<6 | uint64(gr)
								if _, ok := seen[key]; !ok {
									seen[key] = struct{}{}
									c.DistinctH("distinct", key)
								}
							}
							if rk := [6]int{pi, l, ji, rr, 1}; rounds > ws.maxRounds || rounds == ws.maxRounds && rankLess(rk, ws.maxRank) {
								ws.maxRounds, ws.maxRank, ws.maxCase = rounds, rk, mkCase(jb, rr, "CompareDiff")
							}
						}
					}
				})
				wireReq = lk.hs.calls + lk.kv.calls
				lk.hs.calls, lk.kv.calls = 0, 0
				c.Count("evaluations", evals)
				c.Count("executions", evals)
				c.Count("wire_requests", wireReq)
				if panicked {
					cs := mkCase(curJob, max(curJ, 0), "Diff")
					r.violation("panic "+trNames[curJob.tr], p, rankOf(cs, pi, l, max(curJ, 0)), fmt.Sprintf("df=%d thr=%d: %s (left=%v right=%v)", p.Df, p.Thr, what, cs.Left, cs.Right), cs)
				}
			}
		}()
	}
	wg.Wait()
	return !timeUp.Load()
}

// cancelCheck: a cancelled context makes both variants return the context's error, over every transport.
func (r *runner) cancelCheck(p param) {
	c := r.c
	ctx, cancel := context.WithCancel(context.Background())
	cancel()
	left := buildIndex(p, contentsOfCode(728), modeFresh, nil)
	right := buildIndex(p, contentsOfCode(364), modeFresh, nil)
	lk := newLink()
	for tr := 0; tr < 3; tr++ {
		rem := lk.remote(tr, right, nil)
		_, _, _, err := left.Diff(ctx, rem)
		c.Count("evaluations", 1)
		c.Count("executions", 1)
		if !errors.Is(err, context.Canceled) {
			r.violation("Diff "+trNames[tr]+" cancelled-ctx-not-reported", p, [6]int{0, r.pidx(p)}, fmt.Sprintf("df=%d thr=%d: Diff with a cancelled context returned err=%v", p.Df, p.Thr, err),
				&smallCase{Kind: "cancel", Df: p.Df, Thr: p.Thr, Transport: trNames[tr], Variant: "Diff"})
		}
		rem = lk.remote(tr, right, nil)
		_, _, _, _, err = left.(ldiff.CompareDiff).CompareDiff(ctx, rem)
		c.Count("evaluations", 1)
		c.Count("executions", 1)
		if !errors.Is(err, context.Canceled) {
			r.violation("CompareDiff "+trNames[tr]+" cancelled-ctx-not-reported", p, [6]int{0, r.pidx(p)}, fmt.Sprintf("df=%d thr=%d: CompareDiff with a cancelled context returned err=%v", p.Df, p.Thr, err),
				&smallCase{Kind: "cancel", Df: p.Df, Thr: p.Thr, Transport: trNames[tr], Variant: "CompareDiff"})
		}
	}
}

// ---------------------------------------------------------------------------------------------------
// fixed large deterministic cases

type largeCase struct {
	name        string
	left, right map[string]string
	params      []param
	quick       bool
}

func seqSet(from, to int, head func(i int) string) map[string]string {
	m := make(map[string]string, to-from)
	for i := from; i < to; i++ {
		m[fmt.Sprintf("id-%d", i)] = head(i)
	}
	return m
}

func constHead(h string) func(int) string { return func(int) string { return h } }

// clusterIds returns the first n ids "c<k>" whose xxhash top byte is 0x00 (all in one top-level bucket for any
// divide factor <= 256).
func clusterIds(n int) []string {
	var out []string
	for k := 0; len(out) < n; k++ {
		id := fmt.Sprintf("c%d", k)
		if ldu.H(id)>>56 == 0 {
			out = append(out, id)
		}
	}
	return out
}

func largeCases() []largeCase {
	prod := param{32, 256}
	small3 := []param{prod, {2, 1}, {4, 2}}
	var cs []largeCase

	// exactly one element different (changed head), 5k sequential ids
	l := seqSet(0, 5000, constHead("h1"))
	rgt := seqSet(0, 5000, constHead("h1"))
	rgt["id-2500"] = "h2"
	cs = append(cs, largeCase{"seq5k-one-diff", l, rgt, []param{prod, {2, 1}}, true})

	// exactly one element only remote
	rgt = seqSet(0, 5001, constHead("h1"))
	cs = append(cs, largeCase{"seq5k-one-new", l, rgt, small3, false})

	// 5k mixed: shifted window + every 97th head differs (alternating which side is greater)
	l = seqSet(0, 5000, func(i int) string {
		if i%97 == 0 && i%2 == 0 {
			return "h2"
		}
		return "h1"
	})
	rgt = seqSet(300, 5300, func(i int) string {
		if i%97 == 0 && i%2 == 1 {
			return "h2"
		}
		return "h1"
	})
	cs = append(cs, largeCase{"seq5k-mixed", l, rgt, small3, false})

	// disjoint sets
	cs = append(cs, largeCase{"disjoint-2500", seqSet(0, 2500, constHead("h1")), seqSet(2500, 5000, constHead("h1")), small3, false})

	// nested sets (the swapped direction is run as well)
	cs = append(cs, largeCase{"nested-5k-in-1k", seqSet(1000, 2000, constHead("h1")), seqSet(0, 5000, constHead("h1")), small3, false})

	// empty against 5k
	cs = append(cs, largeCase{"empty-vs-5k", map[string]string{}, seqSet(0, 5000, constHead("h1")), small3, false})

	// 50k sequential ids: shifted window and sparse head changes, production parameters
	l = seqSet(0, 50000, func(i int) string {
		if i%1009 == 0 {
			return "h2"
		}
		return "h1"
	})
	rgt = seqSet(100, 50100, func(i int) string {
		if i%2003 == 0 {
			return "h0"
		}
		return "h1"
	})
	cs = append(cs, largeCase{"seq50k-mixed", l, rgt, []param{prod}, false})
	l2 := seqSet(0, 50000, constHead("h1"))
	r2 := seqSet(0, 50000, constHead("h1"))
	delete(r2, "id-31337")
	cs = append(cs, largeCase{"seq50k-one-removed", l2, r2, []param{prod}, false})

	// cluster: 300 ids in one top-level bucket, differences of every kind inside the cluster, a few ids outside
	cl := clusterIds(330)
	l = map[string]string{}
	rgt = map[string]string{}
	for i, id := range cl {
		switch {
		case i >= 300: // only remote
			rgt[id] = "h1"
		case i%10 == 3: // only local
			l[id] = "h1"
		case i%10 == 5: // changed, ours greater
			l[id], rgt[id] = "h2", "h1"
		case i%10 == 7: // changed, theirs greater
			l[id], rgt[id] = "h1", "h2"
		default:
			l[id], rgt[id] = "h1", "h1"
		}
	}
	l["o1"], rgt["o1"] = "h1", "h1"
	l["o2"] = "h1"
	rgt["o3"] = "h1"
	cs = append(cs, largeCase{"cluster300", l, rgt, small3, true})

	// spread: 600 sequential ids (their hashes cover the whole hash space, both ends of it included) with
	// differences of every kind, under divide factors that do not divide 2^64 (the sub-ranges of the top range are
	// then uneven and the last one takes the remainder) next to some that do
	odd := []param{{3, 1}, {3, 4}, {5, 3}, {6, 1}, {7, 4}, {10, 16}, {12, 2}, {255, 8}, {4, 2}, {8, 3}}
	l = map[string]string{}
	rgt = map[string]string{}
	for i := 0; i < 600; i++ {
		id := fmt.Sprintf("id-%d", i)
		switch i % 7 {
		case 1: // only local
			l[id] = "h1"
		case 2: // only remote
			rgt[id] = "h1"
		case 3: // changed, ours greater
			l[id], rgt[id] = "h2", "h1"
		case 4: // changed, theirs greater
			l[id], rgt[id] = "h1", "h2"
		default:
			l[id], rgt[id] = "h1", "h1"
		}
	}
	cs = append(cs, largeCase{"spread600-odd-factors", l, rgt, odd, true})
	// the same factors on the two extreme 1/256 slices of the hash space only
	l = map[string]string{}
	rgt = map[string]string{}
	for i, id := range edgeIds(60) {
		switch i % 5 {
		case 1:
			l[id] = "h1"
		case 2:
			rgt[id] = "h1"
		case 3:
			l[id], rgt[id] = "h2", "h1"
		default:
			l[id], rgt[id] = "h1", "h1"
		}
	}
	cs = append(cs, largeCase{"edges60-odd-factors", l, rgt, odd, true})
	return cs
}

// edgeIds returns the first n ids "e<k>" whose xxhash top byte is 0x00 or 0xff, alternating (both ends of the hash
// space, whatever the divide factor).
func edgeIds(n int) []string {
	var out []string
	want := uint64(0)
	for k := 0; len(out) < n; k++ {
		id := fmt.Sprintf("e%d", k)
		if ldu.H(id)>>56 == want {
			out = append(out, id)
			want ^= 0xff
		}
	}
	return out
}

func elementsOf(m map[string]string) []ldiff.Element {
	ids := sortedIds(m)
	els := make([]ldiff.Element, 0, len(ids))
	for _, id := range ids {
		els = append(els, ldiff.Element{Id: id, Head: m[id]})
	}
	return els
}

func sortedCopy(s []string) []string {
	o := append([]string{}, s...)
	sort.Strings(o)
	return o
}

func eqStr(a, b []string) bool {
	if len(a) != len(b) {
		return false
	}
	for i := range a {
		if a[i] != b[i] {
			return false
		}
	}
	return true
}

func hasDup(sorted []string) bool {
	for i := 1; i < len(sorted); i++ {
		if sorted[i] == sorted[i-1] {
			return true
		}
	}
	return false
}

func brief(s []string) string {
	if len(s) <= 8 {
		return fmt.Sprint(s)
	}
	return fmt.Sprintf("%v…(%d ids)", s[:8], len(s))
}

// checkGeneric runs both variants of local against remote over transport tr and compares with the reference.
// It returns the violation kind ("" if none), a description, the rounds used and the outcome key.
func checkGeneric(lk *link, p param, tr int, local, remote ldiff.Diff, lc, rc map[string]string, variant string) (kind, what string, rounds int, outcome string, allFour bool) {
	ref := reference(lc, rc)
	bound := roundsBound(p)
	lk.lim = bound
	rem := lk.remote(tr, remote, nil)
	ctx := context.Background()
	if variant == "Diff" {
		nw, ch, rm, err := local.Diff(ctx, rem)
		rounds = rem.rounds
		sn, sc, sr := sortedCopy(nw), sortedCopy(ch), sortedCopy(rm)
		switch {
		case errors.Is(err, errTooManyRounds):
			kind = "rounds-exceeded"
		case err != nil:
			kind = "error"
		case hasDup(sn) || hasDup(sc) || hasDup(sr):
			kind = "duplicate-id"
		case !eqStr(sn, ref.New):
			kind = "new-wrong"
		case !eqStr(sc, ref.Changed):
			kind = "changed-wrong"
		case !eqStr(sr, ref.Removed):
			kind = "removed-wrong"
		case rounds > bound:
			kind = "rounds-exceeded"
		}
		what = fmt.Sprintf("Diff returned new=%s changed=%s removed=%s err=%v in %d rounds (bound %d); expected new=%s changed=%s removed=%s",
			brief(sn), brief(sc), brief(sr), err, rounds, bound, brief(ref.New), brief(ref.Changed), brief(ref.Removed))
		outcome = fmt.Sprint("Diff", p, sn, sc, sr)
		return
	}
	nw, our, their, rm, err := local.(ldiff.CompareDiff).CompareDiff(ctx, rem)
	rounds = rem.rounds
	sn, so, st, sr := sortedCopy(nw), sortedCopy(our), sortedCopy(their), sortedCopy(rm)
	switch {
	case errors.Is(err, errTooManyRounds):
		kind = "rounds-exceeded"
	case err != nil:
		kind = "error"
	case hasDup(sn) || hasDup(so) || hasDup(st) || hasDup(sr):
		kind = "duplicate-id"
	case !eqStr(sn, ref.New):
		kind = "new-wrong"
	case !eqStr(so, ref.Our) || !eqStr(st, ref.Their):
		kind = "changed-split-wrong"
	case !eqStr(sr, ref.Removed):
		kind = "removed-wrong"
	case rounds > bound:
		kind = "rounds-exceeded"
	}
	what = fmt.Sprintf("CompareDiff returned new=%s ours=%s theirs=%s removed=%s err=%v in %d rounds (bound %d); expected new=%s ours=%s theirs=%s removed=%s",
		brief(sn), brief(so), brief(st), brief(sr), err, rounds, bound, brief(ref.New), brief(ref.Our), brief(ref.Their), brief(ref.Removed))
	outcome = fmt.Sprint("CompareDiff", p, sn, so, st, sr)
	allFour = len(sn) > 0 && len(so) > 0 && len(st) > 0 && len(sr) > 0
	return
}

func (r *runner) largeCases() {
	c := r.c
	var names []string
	type unit struct {
		lc largeCase
		p  param
	}
	var units []unit
	for _, lc := range largeCases() {
		if c.Quick() && !lc.quick {
			continue
		}
		names = append(names, fmt.Sprintf("%s(|L|=%d,|R|=%d)", lc.name, len(lc.left), len(lc.right)))
		for _, p := range lc.params {
			units = append(units, unit{lc, p})
		}
	}
	c.Bound("large_cases", strings.Join(names, " "))
	var wg sync.WaitGroup
	sem := make(chan struct{}, 16)
	for _, u := range units {
		wg.Add(1)
		sem <- struct{}{}
		go func(u unit) {
			defer wg.Done()
			defer func() { <-sem }()
			if c.TimeUp() {
				c.NotExhaustive("deadline reached inside the large cases")
				return
			}
			lk := newLink()
			panicked, what := vk.Recover(func() {
				left := ldiff.New(u.p.Df, u.p.Thr)
				left.Set(elementsOf(u.lc.left)...)
				right := ldiff.New(u.p.Df, u.p.Thr)
				right.Set(elementsOf(u.lc.right)...)
				for _, swap := range []bool{false, true} {
					a, b, ac, bc := left, right, u.lc.left, u.lc.right
					if swap {
						a, b, ac, bc = right, left, u.lc.right, u.lc.left
					}
					for tr := 0; tr < 3; tr++ {
						for _, variant := range []string{"Diff", "CompareDiff"} {
							kind, desc, rounds, outcome, _ := checkGeneric(lk, u.p, tr, a, b, ac, bc, variant)
							c.Count("evaluations", 1)
							c.Count("executions", 1)
							c.Count("large_evaluations", 1)
							c.Distinct("distinct", outcome)
							if u.lc.name == "cluster300" && u.p == (param{32, 256}) && !swap && tr == trHs && variant == "CompareDiff" {
								c.Sample(map[string]any{"what": "large case " + u.lc.name + " over the head-sync wire adapter, df=32 thr=256", "rounds": rounds, "result": desc})
							}
							if kind == "removed-wrong" && hashlessSkip(tr, a, b, variant) {
								kind += hashlessKey
							}
							if kind != "" {
								cs := &smallCase{Kind: "large", Df: u.p.Df, Thr: u.p.Thr, Large: u.lc.name, Swap: swap, Transport: trNames[tr], Variant: variant}
								r.violation(variant+" "+trNames[tr]+" large "+kind, u.p, [6]int{len(u.lc.left) + len(u.lc.right), r.pidx(u.p), tr, b2i(swap)}, fmt.Sprintf("large case %s (swap=%v) df=%d thr=%d %s: %s", u.lc.name, swap, u.p.Df, u.p.Thr, trNames[tr], desc), cs)
							}
							r.mu.Lock()
							k := fmt.Sprintf("df=%d", u.p.effDf())
							if rounds > r.maxByDf[k] {
								r.maxByDf[k] = rounds
							}
							r.mu.Unlock()
						}
					}
				}
			})
			c.Count("wire_requests", lk.hs.calls+lk.kv.calls)
			if panicked {
				r.violation("panic large", u.p, [6]int{len(u.lc.left) + len(u.lc.right), r.pidx(u.p)}, fmt.Sprintf("large case %s df=%d thr=%d: %s", u.lc.name, u.p.Df, u.p.Thr, what),
					&smallCase{Kind: "large", Df: u.p.Df, Thr: u.p.Thr, Large: u.lc.name, Transport: "inproc", Variant: "Diff"})
			}
		}(u)
	}
	wg.Wait()
}

// ---------------------------------------------------------------------------------------------------

func replay(c *vk.Ctx) {
	var rf struct {
		Case smallCase `json:"case"`
	}
	if err := vk.ReadJSON(c.Replay, &rf); err != nil {
		c.Broken("replay file: %v", err)
		return
	}
	cs := rf.Case
	p := param{cs.Df, cs.Thr}
	lk := newLink()
	tr := trIdx(cs.Transport)
	c.Count("evaluations", 1)
	c.Count("executions", 1)
	c.DistinctH("distinct", 1)
	c.DistinctH("distinct", 2)
	switch cs.Kind {
	case "cancel":
		ctx, cancel := context.WithCancel(context.Background())
		cancel()
		left := buildIndex(p, contentsOfCode(728), modeFresh, nil)
		right := buildIndex(p, contentsOfCode(364), modeFresh, nil)
		var err error
		if cs.Variant == "Diff" {
			_, _, _, err = left.Diff(ctx, lk.remote(tr, right, nil))
		} else {
			_, _, _, _, err = left.(ldiff.CompareDiff).CompareDiff(ctx, lk.remote(tr, right, nil))
		}
		if !errors.Is(err, context.Canceled) {
			c.Violation("replayed: cancelled-ctx-not-reported", fmt.Sprintf("err=%v", err), cs)
			return
		}
	case "large":
		var found *largeCase
		for _, lc := range largeCases() {
			if lc.name == cs.Large {
				lc := lc
				found = &lc
			}
		}
		if found == nil {
			c.Broken("replay: unknown large case %q", cs.Large)
			return
		}
		lcont, rcont := found.left, found.right
		if cs.Swap {
			lcont, rcont = rcont, lcont
		}
		left := ldiff.New(p.Df, p.Thr)
		left.Set(elementsOf(lcont)...)
		right := ldiff.New(p.Df, p.Thr)
		right.Set(elementsOf(rcont)...)
		var kind, desc string
		panicked, what := vk.Recover(func() {
			kind, desc, _, _, _ = checkGeneric(lk, p, tr, left, right, lcont, rcont, cs.Variant)
		})
		if panicked {
			c.Violation("replayed: panic", what, cs)
			return
		}
		if kind != "" {
			c.Violation("replayed: "+kind, desc, cs)
			return
		}
	default:
		if _, ok := codeOfContents(cs.Left); !ok {
			c.Note("replay: left contents are outside the 6-id universe (still replayed)")
		}
		rp := p
		if cs.RDf != 0 || cs.RThr != 0 {
			rp = param{cs.RDf, cs.RThr}
		}
		left := buildIndex(p, cs.Left, modeIdx(cs.LeftMode), smallExtras(cs.Left))
		right := buildIndex(rp, cs.Right, modeIdx(cs.RightMode), smallExtras(cs.Right))
		lk.cr.trace = left
		var kind, desc string
		panicked, what := vk.Recover(func() {
			kind, desc, _, _, _ = checkGeneric(lk, p, tr, left, right, cs.Left, cs.Right, cs.Variant)
		})
		if panicked {
			c.Violation("replayed: panic", what, cs)
			return
		}
		if kind != "" {
			c.Violation("replayed: "+kind, fmt.Sprintf("df=%d thr=%d %s local(%s)=%v remote(%s)=%v: %s", p.Df, p.Thr, cs.Transport, cs.LeftMode, cs.Left, cs.RightMode, cs.Right, desc), cs)
			return
		}
	}
	fmt.Println("replay: case no longer violates the property")
}
