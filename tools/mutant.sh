#!/bin/bash
# usage: tools/mutant.sh <patch.diff> <check id> [tier] [--tests]
# Applies a patch to scratch copies of the files it touches (never to /repo), injects them by overlay and runs
# the check: exit status and output are the check's. With --tests also runs the touched packages' own tests with
# the mutated files (they are expected to pass for a useful mutant).
set -u
patch=$(readlink -f "${1:?patch}"); id=${2:?check}; tier=${3:-quick}; tests=${4:-}
. /verif/env.sh
tmp=$(mktemp -d /dev/shm/verif-mut.XXXXXX)
trap 'rm -rf "$tmp"' EXIT
files=$(grep -E '^\+\+\+ ' "$patch" | sed -E 's#^\+\+\+ ([ab]/)?##; s#\t.*##' | grep -v '^/dev/null')
extra=""
ov="{\"Replace\":{"
for f in $files; do
  mkdir -p "$tmp/src/$(dirname "$f")"
  [ -f "/repo/$f" ] && cp "/repo/$f" "$tmp/src/$f"
done
( cd "$tmp/src" && patch -s --batch -p1 < "$patch" ) || { echo "patch does not apply" >&2; exit 2; }
first=1
for f in $files; do
  extra="$extra${extra:+,}/repo/$f=$tmp/src/$f"
  [ $first = 1 ] || ov="$ov,"
  first=0
  ov="$ov\"/repo/$f\":\"$tmp/src/$f\""
done
ov="$ov}}"
if [ "$tests" = "--tests" ]; then
  echo "$ov" > "$tmp/ov.json"
  pkgs=$(for f in $files; do echo "./$(dirname "$f")/..."; done | sort -u)
  ( cd /repo && go test -overlay "$tmp/ov.json" -vet=off -count=1 $pkgs > "$tmp/tests.log" 2>&1; echo "repo-tests-exit=$?" >> "$tmp/tests.log" )
  grep -v 'no test files' "$tmp/tests.log" | grep -E '^(ok|FAIL|---|panic|repo-tests-exit)' | tail -15
fi
VERIF_NO_EVIDENCE=1 VERIF_GEN="$tmp/gen" VERIF_EXTRA_REPLACE="$extra" /verif/run "$id" "$tier"
rc=$?
echo "check-exit=$rc"
exit $rc
