#!/bin/bash
# replaytest.sh <seeded dir> <check> — the first violation a check reports for a seeded change must replay:
# with the change applied the replay command reports a violation again, on the unchanged tree it exits 0.
set -u
D=$1; C=$2
cd /verif
[ -z "$(git -C /repo status --porcelain)" ] || { echo "/repo not clean"; exit 2; }
git -C /repo apply "$D/patch.diff" || exit 2
trap 'git -C /repo checkout -- . ; git -C /repo clean -fdq' EXIT
VERIF_NO_EVIDENCE=1 ./run $C quick > /tmp/replaytest.$C.log 2>&1
f=$(grep -m1 -oE '^VIOLATION property=[A-Z0-9]+ replay=\S+' /tmp/replaytest.$C.log | sed 's/.*replay=//')
[ -n "$f" ] || { echo "$(basename $D) $C: NO-VIOLATION-IN-QUICK"; exit 1; }
VERIF_NO_EVIDENCE=1 ./run $C --replay "$f" > /tmp/replaytest.$C.with.log 2>&1; w=$?
nv=$(grep -c '^VIOLATION' /tmp/replaytest.$C.with.log)
git -C /repo checkout -- . ; git -C /repo clean -fdq
VERIF_NO_EVIDENCE=1 ./run $C --replay "$f" > /tmp/replaytest.$C.without.log 2>&1; wo=$?
echo "$(basename $D) $C: replay-with-change exit=$w violations=$nv; replay-on-unchanged-tree exit=$wo ($(basename $f))"
