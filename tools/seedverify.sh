#!/bin/bash
# seedverify.sh <ID> <patch> <demo_test_file> <pkg_dir> <run_regex> [extra go test flags]
# Confirms a seeded change in a scratch worktree of /repo: applies, builds, whole suite passes, demo fails with / passes without.
set -u
source /verif/env.sh
ID=$1; PATCH=$2; DEMO=$3; PKG=$4; RE=$5; shift 5; EXTRA="$*"
WT=/tmp/sv/$ID; LOG=/tmp/sv/$ID.log
mkdir -p /tmp/sv; rm -rf $WT; git -C /repo worktree prune
git -C /repo worktree add -q --detach $WT HEAD || exit 2
cd $WT
{
echo "## head $(git rev-parse --short HEAD)"
git apply --check $PATCH && git apply $PATCH || { echo "APPLY-FAILED"; }
git status --short
echo "## build"; go build ./... && echo BUILD-OK
echo "## suite with change"
go test -vet=off -count=1 -timeout 25m ./... 2>&1 | grep -v "no test files" | grep -vE "^ok " | tail -30
echo "SUITE-EXIT=${PIPESTATUS[0]}"
cp $DEMO $PKG/
echo "## demo with change (expect FAIL)"
go test -vet=off -count=1 $EXTRA -run "$RE" ./$PKG/ 2>&1 | tail -25; echo "DEMO-WITH-EXIT=${PIPESTATUS[0]}"
git apply -R $PATCH
echo "## demo without change (expect ok)"
go test -vet=off -count=1 $EXTRA -run "$RE" ./$PKG/ 2>&1 | tail -5; echo "DEMO-WITHOUT-EXIT=${PIPESTATUS[0]}"
} > $LOG 2>&1
cd /; git -C /repo worktree remove --force $WT
grep -E "APPLY-FAILED|BUILD-OK|SUITE-EXIT|DEMO-WITH-EXIT|DEMO-WITHOUT-EXIT|^FAIL|^--- FAIL" $LOG | sort | uniq -c
