// genoverlay builds /verif/.gen/overlay.json from /repo's *current* working tree:
//
//  1. every file under /verif/shims/<rel>/ is added to /repo/<rel>/ (virtual packages verifshim/*, and the
//     build-tag-guarded zz_verif_export.go accessors);
//  2. for every package listed in /verif/shims/rewrite.txt each non-test .go file is copied to
//     /verif/.gen/rw/<rel>/ with its `"sync"` (and optionally `"sync/atomic"`) import re-pointed to the shim
//     package - nothing else changes, so edits made to /repo (including an evaluator's mutation) survive.
//
// /repo itself is never written.
package main

import (
	"bufio"
	"encoding/json"
	"fmt"
	"go/parser"
	"go/token"
	"os"
	"path/filepath"
	"strconv"
	"strings"
)

const (
	repo   = "/repo"
	verif  = "/verif"
	module = "github.com/anyproto/any-sync"
)

func die(err error) {
	fmt.Fprintln(os.Stderr, "genoverlay:", err)
	os.Exit(2)
}

// extra maps /repo paths to replacement files (VERIF_EXTRA_REPLACE="orig=repl,orig=repl"): used to inject a
// deliberately broken copy of a source file (mutant runs) without touching /repo.
var extra = map[string]string{}

func main() {
	gen := filepath.Join(verif, ".gen")
	if g := os.Getenv("VERIF_GEN"); g != "" {
		gen = g
	}
	for _, kv := range strings.Split(os.Getenv("VERIF_EXTRA_REPLACE"), ",") {
		if k, v, ok := strings.Cut(kv, "="); ok {
			extra[k] = v
		}
	}
	rw := filepath.Join(gen, "rw")
	os.RemoveAll(rw)
	if err := os.MkdirAll(rw, 0o755); err != nil {
		die(err)
	}
	replace := map[string]string{}

	// 1. shims
	shims := filepath.Join(verif, "shims")
	err := filepath.Walk(shims, func(p string, info os.FileInfo, err error) error {
		if err != nil {
			return err
		}
		if info.IsDir() || !strings.HasSuffix(p, ".go") {
			return nil
		}
		rel, _ := filepath.Rel(shims, p)
		replace[filepath.Join(repo, rel)] = p
		return nil
	})
	if err != nil {
		die(err)
	}

	// 2. import rewriting
	f, err := os.Open(filepath.Join(shims, "rewrite.txt"))
	if err == nil {
		sc := bufio.NewScanner(f)
		for sc.Scan() {
			line := strings.TrimSpace(sc.Text())
			if line == "" || strings.HasPrefix(line, "#") {
				continue
			}
			fields := strings.Fields(line)
			pkg := fields[0]
			atomicToo := len(fields) > 1 && fields[1] == "atomic"
			if err := rewritePkg(pkg, atomicToo, rw, replace); err != nil {
				die(err)
			}
		}
		f.Close()
	}

	for k, v := range extra {
		if _, done := replace[k]; !done {
			replace[k] = v
		}
	}
	b, _ := json.MarshalIndent(map[string]any{"Replace": replace}, "", " ")
	if err := os.WriteFile(filepath.Join(gen, "overlay.json"), b, 0o644); err != nil {
		die(err)
	}
}

func rewritePkg(pkg string, atomicToo bool, rw string, replace map[string]string) error {
	dir := filepath.Join(repo, pkg)
	ents, err := os.ReadDir(dir)
	if err != nil {
		return err
	}
	for _, e := range ents {
		name := e.Name()
		if e.IsDir() || !strings.HasSuffix(name, ".go") || strings.HasSuffix(name, "_test.go") {
			continue
		}
		src := filepath.Join(dir, name)
		readFrom := src
		if alt, ok := extra[src]; ok {
			readFrom = alt
		}
		data, err := os.ReadFile(readFrom)
		if err != nil {
			return err
		}
		fset := token.NewFileSet()
		af, err := parser.ParseFile(fset, src, data, parser.ImportsOnly)
		if err != nil {
			return fmt.Errorf("%s: %w", src, err)
		}
		type edit struct {
			off, end int
			text     string
		}
		var edits []edit
		for _, imp := range af.Imports {
			path, _ := strconv.Unquote(imp.Path.Value)
			var repl, defName string
			switch {
			case path == "sync":
				repl, defName = module+"/verifshim/vsync", "sync"
			case path == "sync/atomic" && atomicToo:
				repl, defName = module+"/verifshim/vatomic", "atomic"
			default:
				continue
			}
			start := fset.Position(imp.Path.Pos()).Offset
			end := fset.Position(imp.Path.End()).Offset
			text := strconv.Quote(repl)
			if imp.Name == nil {
				text = defName + " " + text
			}
			edits = append(edits, edit{start, end, text})
		}
		if len(edits) == 0 {
			if alt, ok := extra[src]; ok {
				replace[src] = alt
			}
			continue
		}
		out := make([]byte, 0, len(data)+128)
		last := 0
		for _, ed := range edits {
			out = append(out, data[last:ed.off]...)
			out = append(out, ed.text...)
			last = ed.end
		}
		out = append(out, data[last:]...)
		dst := filepath.Join(rw, pkg, name)
		if err := os.MkdirAll(filepath.Dir(dst), 0o755); err != nil {
			return err
		}
		if err := os.WriteFile(dst, out, 0o644); err != nil {
			return err
		}
		replace[src] = dst
	}
	return nil
}
