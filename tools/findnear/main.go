// findnear searches ids "o<n>" whose hash shares exactly k leading bits with the Triple ids of lib/ldu.
package main

import (
	"fmt"
	"math/bits"

	"verif/lib/ldu"
)

func main() {
	t := ldu.H(ldu.Triple[0])
	want := map[int]bool{1: true, 2: true, 3: true, 4: true, 5: true, 6: true, 8: true, 12: true}
	for n := 4; n < 60000000 && len(want) > 0; n++ {
		id := fmt.Sprintf("o%d", n)
		k := bits.LeadingZeros64(ldu.H(id) ^ t)
		if want[k] {
			fmt.Printf("%d bits: %s\n", k, id)
			delete(want, k)
		}
	}
	for _, id := range append(append([]string{}, ldu.Pair...), ldu.Loose...) {
		fmt.Printf("%s shares %d bits with triple\n", id, bits.LeadingZeros64(ldu.H(id)^t))
	}
}
