#!/usr/bin/env python3
"""Regenerates /verif/MANIFEST.json from the table below (one entry per claimed property)."""
import json, os
V = '/verif'
props = [json.loads(l) for l in open(f'{V}/properties.jsonl')]
CHECKS = {
 'C08': dict(level='model_checking', engine='statesearch',
   technique='explicit-state BFS over the real ldiff index (state = full internal range tree), differential oracle vs freshly built index',
   text='Every Set/RemoveId sequence over a 6-id forced-collision universe is explored as a state graph of the real index for a grid of (divideFactor, threshold); '
        'in the thorough tier the graph closes (all 3^6 contents x 36 parameter pairs, every internal state reachable by any history of any length), so for this universe history-independence of Hash/Len/Elements/Ranges is decided completely, not sampled.',
   note='ids limited to the 6-id universe and heads to 2 values; reference = same implementation filled in one Set call (both orders); blake3/xxhash/skiplist trusted', ref='5 C08'),
}
CHECKS['C16'] = dict(level='model_checking', engine='sched',
   technique='stateless schedule exploration (DFS over scheduling decisions, preemption- and deviation-bounded) of the real ocache under a controlled scheduler (testing/synctest + sync shim)',
   text='Every schedule (preemption bound 2/3, environment-deviation bound 1/2) of 2-4 concurrent Get/Pick/Add/Remove/RemoveSame/TryRemove/GC/Close/DoLockedIfNotExists calls on 1-2 ids, from an empty and a preloaded cache, is executed on the real cache with every mutex acquisition and every load/close/try-close step as a scheduling point; the event log of each complete execution is checked against the single-live-instance, loaded-before-returned, no-double-close, nothing-left-open-after-shutdown, no-removed-instance-returned, no-panic and no-deadlock oracles.',
   note='interleaving granularity = lock acquisitions + harness blocking points (unsynchronised accesses are race-detector territory); RWMutex writer preference not modelled; timeouts never fire; map iteration order over two ids is not enumerated', ref='5 C16')
CHECKS['C19'] = dict(level='model_checking', engine='sched',
   technique='stateless schedule exploration (DFS, preemption- and deviation-bounded) of the real stream pool with fake healthy/slow/blocked/failing streams under a controlled scheduler (testing/synctest + sync/atomic shims)',
   text='Every schedule (preemption bound 3/4, deviation bound 1/2) of 2-4 concurrent Broadcast/SendById/Send/tag/peer-close/AddStream operations over real pools holding healthy, slow, blocked-forever and failing fake streams with queue sizes 1..3 is executed; the blocked stream is never released, so a caller that waits on it is reported as a deadlock; per-stream delivery order, queue occupancy (reference computed from the observed acceptance attempts), delivery to healthy streams, index cleanup after stream end and the pool logger Fatal are checked on every execution.',
   note='interleaving granularity = pool mutex acquisitions, stream.closed atomic operations, MsgSend/dial events; the third-party mb queue is not instrumented; one stream per peer where acceptance order is judged', ref='5 C19')
CHECKS['C04'] = dict(level='model_checking', engine='statesearch',
   technique='explicit-state BFS over ACL states of the real validating list; full hand-signed record alphabet (single and two-content records) offered in every state; privilege invariants judged on every accepted transition',
   text='From 5 scripted seed states (every role, live/revoked invites of both types, an owner-made Admin invite, pending join / admin-leave / writer-leave requests) and all states reachable from them by accepted crafted records (depth 1 quick / 2 thorough, abstract-state dedup) the complete crafted alphabet - 16 content kinds x 8 authors x targets x 6 permission levels x invite/request ids incl. unknown and cross-kind ids, plus all ordered pairs of ~35 representative contents as one record - is validated by the real list; every acceptance is judged against the owner/admin/member/outsider/guest invariants and cross-checked through AddRawRecord and a rebuild from the raw log.',
   note='8 accounts; observer identity is a non-member so crafted key material may be placeholders; abstract-state dedup drops record ids', ref='5 C04')
CHECKS['C13'] = dict(level='exploration', engine='mutate',
   technique='bounded exhaustive mutation enumeration (every byte offset x value set, every truncation, every id character, every field of the signed messages, all cross-splices, re-signed single-defect forgeries) against the real payload validators; exhaustive 1-1 key-pair enumeration',
   text='For payloads of all six constructors every single-byte / single-field / id-character mutation of each of the six parts, every cross-splice of parts from two valid spaces and 38 re-signed single-binding forgeries are validated by the real ValidateSpaceStorageCreatePayload / ValidateSpaceHeader; a reference verdict (hash / signature / cross-part pinned / informational) decides each; one-to-one derivation is compared for all ordered pairs of 8 key pairs and both types.',
   note='seeds from deterministic keys; wrapper re-encodings with recomputed ids that no other part pins are counted as informational (see DESIGN C13), not as violations', ref='5 C13')
CHECKS['C18'] = dict(level='exploration', engine='statesearch',
   technique='exhaustive configuration enumeration (node sets x type mixes x list orders x viewpoints x space-id forms x configuration arrival paths) on the real nodeconf service and chash ring',
   text='Every configuration up to N nodes (all orders N<=3 quick / N<=5 thorough, rotations+reverse above) with 4 type mixes is loaded into the real nodeconf service from every viewpoint (each node and a client; via Init, via the Store and via a runtime update) and asked about 53 space-id forms; responsible set, IsResponsible and NodeIds are compared with a reference ring built from the sync nodes only.',
   note='replication factor 3, 3000 partitions as in the code; reference ring = same chash library fed with the sync-node set only', ref='5 C18')
CHECKS['C20'] = dict(level='exploration', engine='statesearch',
   technique='exhaustive enumeration of component lists x kinds x single failure points x close-error subsets x child-container nestings on the real app container vs a list-based reference model',
   text='All component lists up to 4 (quick) / 5 (thorough) with every plain/runnable mix, every single Init/Run failure point, every subset of failing Close calls, and nested child containers (depth <= 2) with shadowed names and by-name / by-type lookups from inside Init are run on the real app.App; the call log, the returned error and every lookup result are compared with a boring reference.',
   note='components return immediately; executed inside a synctest bubble so the container watchdog timers never depend on wall clock', ref='5 C20')
CHECKS['C01'] = dict(level='model_checking', engine='statesearch',
   technique='explicit-state BFS (distributed over 16 processes, level-synchronous, canonical-state dedup) over event histories of 2-3 real sync-tree replicas with a harness-owned network; settle phase executed from every distinct state',
   text='All histories up to a depth bound of local edits / snapshots and per-message fates (deliver any in-flight head update, full-sync request or response stream; drop; duplicate; cut a response stream) over real synctree/objecttree replicas are enumerated; in every state the ancestry invariants (stored parents and snapshot bases, recorded heads = live heads, advertised heads held) are checked and from every distinct state both settle variants (drop all / flush all, then anti-entropy between every ordered pair) must end with equal heads and equal stored sets.',
   note='search runs over an in-memory implementation of the storage interfaces (real any-store replay of every short history must give the identical canonical state); one account on all replicas; depth-bounded because request/counter-request chains make the message-level space infinite', ref='5 C01')
CHECKS['C14'] = dict(level='model_checking', engine='statesearch+mutate+sched',
   technique='exhaustive enumeration of side-configuration pairs x stream chunkings, bounded exhaustive frame corruption / replay / cancellation-point enumeration, all pooled-object histories of length 2-3, and a deviation-bounded schedule exploration of 2-3 concurrent handshakes, all on the real handshake code inside synctest bubbles',
   text='Both ends are the real OutgoingHandshake / IncomingHandshake with the real credential checkers over a harness-owned byte pipe with fake-clock deadlines: all 64x64 (version, accepted list, mode) pairs under whole / 1-byte / deviation-bounded chunkings against a rule-level reference and a byte-level proof oracle; every single-byte / truncation / type / length / drop / duplicate / swap / garbage corruption of every frame via a man-in-the-middle; replays across endpoints; every history of 2-3 handshakes over a one-object pool compared with a fresh object; cancellation before every conn operation; 2-3 concurrent handshakes over the shared pool with every pipe operation a scheduling point.',
   note='under corruption / unilateral abort only success-implies-proof is judged (agreement is impossible); proof decoder is independent and lenient; error texts are not compared', ref='5 C14')
CHECKS['C17'] = dict(level='model_checking', engine='statesearch+sched',
   technique='exhaustive trie-vs-grammar enumeration; explicit-state BFS (replay + 1 event, canonical-state dedup, distributed over processes) over the real pubsub service in node and client role inside synctest bubbles with publish probes and teardown orders from every state; controlled-scheduler exploration of 17 two-operation races',
   text='(a) all patterns/topics with <= 4 segments over a 6-segment alphabet and all Add/Remove sequences on the real trie vs a reference grammar and multiset; (b) BFS to depth 4 (quick) / 6 (thorough) over subscribe / unsubscribe / publish / close / evict / revalidate / close-space / clock events on the real service with a private real stream pool and fake streams; from every state ~30 publish variants are judged against a reference delivery model and 9-11 teardown orders must leave every interest map, trie and pool tag empty; (c) stream close vs subscribe / unsubscribe / CloseSpace / evict / publish fan-out schedules under the controlled scheduler, judged by linearizability of delivery and absence of leaked interest.',
   note='rate limiter and dedup-ring eviction configured out of reach; status frames not judged; multi-stream operations racing a publish are judged per subscriber stream', ref='5 C17')
CHECKS['C06'] = dict(level='model_checking', engine='statesearch',
   technique='exhaustive enumeration of honest DAGs (programs over two creator replicas x all id orders) and, per DAG, of all arrival permutations x batch partitions x head announcements x reopen points on the real object tree; differential oracle between feedings and against the full order',
   text='Every DAG with <= 4 changes that two honest replicas can produce by create(plain|snapshot)/pull programs, under every relative order of the change ids, is fed to fresh real object trees in every arrival order and batch partition (with the sender heads or the batch maxima announced, reopening from storage at every point): presented and stored sequences must be linear extensions, equal across all feedings that hold the same set, restrictions of the full order, stable in their order ids, prefix-extending whenever Append is reported, and identical on a real any-store tree storage.',
   note='test change builder / no-op validator (ordering logic only); feedings over an in-memory storage implementation, creation-order feed of every DAG (quick: every 4th) repeated on real any-store; each feeding ends with one call carrying the complete set', ref='5 C06')
CHECKS['C07'] = dict(level='exploration', engine='statesearch',
   technique='exhaustive enumeration of all ordered pairs of element sets over a 6-id forced-collision universe x parameter grid x both diff variants x build histories x transports (in process, head-sync wire adapter, key-value wire adapter with real protobuf round trips), set-theoretic reference; round counter for termination',
   text='All 3^6 x 3^6 ordered pairs of element sets over ids whose hashes share 36- and 51-bit prefixes are diffed by the real ldiff (Diff and CompareDiff) for a grid of (divideFactor, threshold), with indexes built fresh / by update / by insert-then-remove, in process and through both wire adapters; new / changed / their-changed / removed must equal the set-theoretic reference, each id once, within a bounded number of range rounds; plus fixed large cases up to 50k ids.',
   note='quick uses the sub-grid recorded in the evidence bounds; ids limited to the 6-id universe (plus fixed large deterministic cases); xxhash / blake3 trusted', ref='5 C07')
CHECKS['C09'] = dict(level='model_checking', engine='statesearch',
   technique='explicit-state BFS over two-replica histories (distributed, canonical-state dedup); for every reachable ordered (responder, requester) pair x requester-heads variant x batch limit the real loader output is judged against set/ancestry reference and replayed into the real requester',
   text='From every state two real sync-tree replicas can reach by edits / snapshots / flushing or losing the network (history length <= 5 quick / 7 thorough) every ordered pair is asked for a full sync with the requester heads + path, an empty request, unknown heads and partly known heads, for every batch limit from 1 byte over every partial sum of change sizes (+-1) to 10 MiB; completeness, no duplicates, parents-before-children, size bound, announced heads (sent or held, maximal, covering the batch) are judged, the batches are applied in order by the real requester, and the real HandleStreamRequest must send the same changes.',
   note='in-memory storage implementation (see C01); requester taken to lack exactly what its storage lacks', ref='5 C09')
CHECKS['C05'] = dict(level='model_checking', engine='statesearch',
   technique='explicit-state BFS over membership histories built with the real record builders (real key material), abstract-state dedup; per step every account view is rebuilt from the raw log and an independent attacker-closure over all encrypted-key blobs is computed; crafted rotations; real encrypted tree content per key generation',
   text='All histories (depth 4/3/3 quick, 6/5/4 thorough from three seed histories) over join-by-request, open-invite join, direct add, removal with rotation, leave request, invite revoke with rotation, stand-alone rotation, re-add and re-join are produced with each actor building its record from its own validating view; after every step every pool account rebuilds its view from the raw log: members must hold every read-key generation (equal to the owner view), non-members must not be able to derive - by their own private key or any invite key they held, closed under the old-key chain - any generation introduced since they lost access; rotation recipients are compared with the reference; encrypted tree content is written / read / scanned in storage under each generation.',
   note='read keys only (not metadata keys); generations exposed by a still-live open invite are excused by design; trees mostly over in-memory storage, scripted histories on real any-store', ref='5 C05')
CHECKS['C10'] = dict(level='fault_enumeration', engine='faultstore',
   technique='exhaustive enumeration of every storage-call boundary (begin, insert/upsert/update/delete, collection/index creation, commit) crossed by every workload operation on a wrapped real any-store database: crash image (copy of the database files, reopened) and injected error (live object vs storage, retry) at each boundary',
   text='Each of 10 operations (space create, eager and deferred tree create, local add, local snapshot add, add refused by the validator, remote add of two changes, remote add forcing a rebuild from storage, ACL record add, tree delete) is run fault-free from a fault-free predecessor to learn its boundary list and before/after dumps; then every boundary is exercised as a crash image - the durable dump must equal before or after and reopen to a structurally valid space / tree / ACL - and as an injected error - the durable dump must equal before (or after with success), the live object must agree with storage, and the same input applied again must yield the fault-free result.',
   note='SQLite atomic commit trusted (images contain whole transactions); the wall-clock insert stamp and apply sequence numbers are masked in dump comparisons; savepoints are not durability boundaries', ref='5 C10')
CHECKS['C03'] = dict(level='model_checking', engine='statesearch+mutate',
   technique='explicit-state BFS over ACL histories built with real record builders (counter-signed log feeding validating and non-validating lists); every history replayed through 5 build modes x prefixes x observers with full projection comparison; bounded exhaustive mutation of the last record of every history',
   text='All histories to depth 3 (4 thorough) from the root and 1 (2) from four scripted seed histories over every record kind incl. batch records are replayed as: one-by-one AddRawRecord, AddRawRecords whole and in every 2-split, a non-validating (network-acceptor) list with keep-only-ours decoding, lists built over in-memory and real any-store storages (also with perturbed order index / row order to force the PrevId fallback), and prefix replicas catching up from RecordsAfter; for owner / member / removed member / node observers all must agree on head, permissions, statuses, invites, requests, key ids, options and own key visibility. Every byte / truncation / id / prev-id / signature / identity / acceptor mutation of the last record must be rejected leaving projection and storage unchanged.',
   note='builder timestamps and nonces are random: only semantics are compared; byte sweeps run on the seeds, short histories and one history per record kind', ref='5 C03')
CHECKS['C02'] = dict(level='exploration', engine='mutate+statesearch',
   technique='exhaustive enumeration of (author x cited ACL record x parent cited record) positions built with the real ChangeBuilder and bounded exhaustive mutation (every byte x value set, every truncation, every id character, every signed / wrapper field with and without re-signing) of accepted changes, alone and mid-batch, on a real verifying object tree; hand-written permission table as reference; independent re-check of everything attached or stored',
   text='Over a fixed ACL history (writer added, demoted, re-promoted, removed with rotation, re-added; guest; never-member; late admin) every author x cited record (r0..r6, unknown) x parent-cited record combination and every single alteration of an accepted change is fed to the real tree alone and inside [valid, case, valid]: acceptance must match the permission table, every non-re-signed alteration must be rejected, a failing call must leave heads / iteration / storage untouched, and every stored or presented change must pass an independent CID / signature / permission re-check.',
   note='tree ACL view = non-member observer with the validating verifier (ACL records carry placeholder key material); unencrypted content; in-memory storage implementation', ref='5 C02')
CHECKS['C12'] = dict(level='model_checking', engine='statesearch+mutate+faultstore',
   technique='explicit-state enumeration of arrival orders x batchings x repetitions of value multisets on the real key-value storage (canonical-content dedup), pairwise real sync exchanges over a marshalled in-memory wire, bounded exhaustive authenticity mutations, storage-fault enumeration inside a write',
   text='Hand-signed values (timestamps as data) of 2 accounts x 2 devices x 2 keys arrive in every permutation and batch composition (with repetition) through SetRaw / HandleMessage / local Set: contents, advertised index, hash and head-storage entry must equal the max-timestamp reference and a reopened store must advertise the same index; every ordered pair of reachable stores is synced once through the real diff / elements handlers and must become equal; relabelled, bit-flipped, cross-signed, unknown-record and unauthorised-signer variants must never be stored nor block valid batch neighbours; an error injected at every storage boundary of a write must leave index = stored and head = hash, and the retry must succeed.',
   note='equal-timestamp ties excluded (property quantifier); bounds on multiset sizes recorded in the evidence; one any-store database per shard wiped between cases', ref='5 C12')
CHECKS['C11'] = dict(level='exploration', engine='mutate',
   technique='bounded exhaustive structure-aware mutation enumeration (all short byte strings, every offset x value set, every truncation, every length-field edit, every wire field removed / duplicated / resized / retyped, the same on signed inner bytes re-signed with real keys) delivered to 34 real network-facing entry points; oracle = returns without panic, hang or allocation unrelated to the input size',
   text='For 2-3 valid seed messages per entry point (tree changes and sync messages, ACL records through validate / add / coordinator-acceptor-client pipeline / keep-identity decode, key-value entries, head-sync and key-value range requests, space payloads and pull responses, pubsub frames, rpc encodings, key / address / ciphertext decoders) every mutant of the stated families is delivered to the real code on fresh objects; a recovered panic (keyed by its first any-sync frame), a call above 20 s three times or an allocation above 64*len+8 MiB measured alone three times is a violation; the keep-identity ACL decoder is additionally compared with the full decoder.',
   note='not coverage-guided fuzzing: the mutation families are enumerated completely within the stated bounds (counts per entry point in the evidence); handshake frames are enumerated by the C14 check; inputs outside the families are not covered', ref='5 C11')
NOT_YET = 'check not built yet (work in progress, see DESIGN.md section 10)'
m = {
 'version': 1,
 'setup_cmd': './setup.sh',
 'hooks': {
  'guard': 'verif',
  'enable': "go test -c -tags verif -overlay /verif/.gen/overlay.json ./checks/cNN  (overlay regenerated from /repo's working tree by /verif/tools/genoverlay at every run; all instrumentation lives in /verif/shims and is injected by overlay, /repo carries no hook code)",
  'baseline_off_cmd': 'cd /repo && go test -mod=mod -vet=off -count=1 -timeout 25m ./...',
  'source_commits': [],
  'add_only': True,
 },
 'engines': [
  {'name': 'statesearch', 'path': 'lib/', 'serves_properties': [], 'kind_free_text': 'explicit-state / exhaustive enumeration over real any-sync objects (successor = replay on fresh instance + 1 event)'},
  {'name': 'sched', 'path': 'lib/sched', 'serves_properties': [], 'kind_free_text': 'controlled scheduler on testing/synctest + sync shim injected by overlay; stateless DFS with iterative preemption bounding'},
  {'name': 'faultstore', 'path': 'lib/faultstore', 'serves_properties': [], 'kind_free_text': 'any-store wrapper numbering storage-call boundaries; crash image (dir copy) and injected error at every boundary'},
  {'name': 'mutate', 'path': 'lib/mutate', 'serves_properties': [], 'kind_free_text': 'bounded exhaustive byte / field mutation enumerator'},
 ],
 'checks': [], 'notes': 'Design, bounds and findings: DESIGN.md. Known findings: known_findings.json.', 'not_applicable': [],
}
for p in props:
    pid = p['id']
    c = CHECKS.get(pid)
    if not c or not os.path.isdir(f"{V}/checks/{pid.lower()}"):
        m['not_applicable'].append({'property_id': pid, 'reason': NOT_YET})
        continue
    for e in m['engines']:
        if e['name'] in c['engine']:
            e['serves_properties'].append(pid)
    m['checks'].append({
      'property_id': pid,
      'quick_cmd': f'./run {pid.lower()} quick',
      'thorough_cmd': f'./run {pid.lower()} thorough',
      'evidence_file': f'/verif/evidence/{pid}.json',
      'replay_cmd_template': f'./run {pid.lower()} --replay {{path}}',
      'engine': c['engine'],
      'level_claimed': {'category': c['level'], 'text': c['text'], 'design_ref': 'DESIGN.md section ' + c['ref']},
      'level_note': c['note'],
      'technique': c['technique'],
    })
json.dump(m, open(f'{V}/MANIFEST.json', 'w'), indent=1)
print('claimed', [c['property_id'] for c in m['checks']])
