#!/usr/bin/env python3
"""Regenerates /verif/MANIFEST.json from the table below (one entry per claimed property)."""
import json, os
V = '/verif'
props = [json.loads(l) for l in open(f'{V}/properties.jsonl')]
CHECKS = {
 'C08': dict(level='model_checking', engine='statesearch',
   technique='explicit-state BFS over the real ldiff index (state = full internal range tree), differential oracle vs freshly built index',
   text='Every Set/RemoveId sequence over a 6-id forced-collision universe is explored as a state graph of the real index for a grid of (divideFactor, threshold); '
        'in the thorough tier the graph closes (all 3^6 contents x 36 parameter pairs, every internal state reachable by any history of any length), so for this universe history-independence of Hash/Len/Elements/Ranges is decided completely, not sampled.',
   note='ids limited to the 6-id universe and heads to 2 values; reference = same implementation filled in one Set call (both orders); blake3/xxhash/skiplist trusted', ref='5 C08'),
}
CHECKS['C16'] = dict(level='model_checking', engine='sched',
   technique='stateless schedule exploration (DFS over scheduling decisions, preemption- and deviation-bounded) of the real ocache under a controlled scheduler (testing/synctest + sync shim)',
   text='Every schedule (preemption bound 2/3, environment-deviation bound 1/2) of 2-4 concurrent Get/Pick/Add/Remove/RemoveSame/TryRemove/GC/Close/DoLockedIfNotExists calls on 1-2 ids, from an empty and a preloaded cache, is executed on the real cache with every mutex acquisition and every load/close/try-close step as a scheduling point; the event log of each complete execution is checked against the single-live-instance, loaded-before-returned, no-double-close, nothing-left-open-after-shutdown, no-removed-instance-returned, no-panic and no-deadlock oracles.',
   note='interleaving granularity = lock acquisitions + harness blocking points (unsynchronised accesses are race-detector territory); RWMutex writer preference not modelled; timeouts never fire; map iteration order over two ids is not enumerated', ref='5 C16')
CHECKS['C19'] = dict(level='model_checking', engine='sched',
   technique='stateless schedule exploration (DFS, preemption- and deviation-bounded) of the real stream pool with fake healthy/slow/blocked/failing streams under a controlled scheduler (testing/synctest + sync/atomic shims)',
   text='Every schedule (preemption bound 3/4, deviation bound 1/2) of 2-4 concurrent Broadcast/SendById/Send/tag/peer-close/AddStream operations over real pools holding healthy, slow, blocked-forever and failing fake streams with queue sizes 1..3 is executed; the blocked stream is never released, so a caller that waits on it is reported as a deadlock; per-stream delivery order, queue occupancy (reference computed from the observed acceptance attempts), delivery to healthy streams, index cleanup after stream end and the pool logger Fatal are checked on every execution.',
   note='interleaving granularity = pool mutex acquisitions, stream.closed atomic operations, MsgSend/dial events; the third-party mb queue is not instrumented; one stream per peer where acceptance order is judged', ref='5 C19')
NOT_YET = 'check not built yet (work in progress, see DESIGN.md section 10)'
m = {
 'version': 1,
 'setup_cmd': './setup.sh',
 'hooks': {
  'guard': 'verif',
  'enable': "go test -c -tags verif -overlay /verif/.gen/overlay.json ./checks/cNN  (overlay regenerated from /repo's working tree by /verif/tools/genoverlay at every run; all instrumentation lives in /verif/shims and is injected by overlay, /repo carries no hook code)",
  'baseline_off_cmd': 'cd /repo && go test -mod=mod -vet=off -count=1 -timeout 25m ./...',
  'source_commits': [],
  'add_only': True,
 },
 'engines': [
  {'name': 'statesearch', 'path': 'lib/', 'serves_properties': [], 'kind_free_text': 'explicit-state / exhaustive enumeration over real any-sync objects (successor = replay on fresh instance + 1 event)'},
  {'name': 'sched', 'path': 'lib/sched', 'serves_properties': [], 'kind_free_text': 'controlled scheduler on testing/synctest + sync shim injected by overlay; stateless DFS with iterative preemption bounding'},
  {'name': 'faultstore', 'path': 'lib/faultstore', 'serves_properties': [], 'kind_free_text': 'any-store wrapper numbering storage-call boundaries; crash image (dir copy) and injected error at every boundary'},
  {'name': 'mutate', 'path': 'lib/mutate', 'serves_properties': [], 'kind_free_text': 'bounded exhaustive byte / field mutation enumerator'},
 ],
 'checks': [], 'notes': 'Design, bounds and findings: DESIGN.md. Known findings: known_findings.json.', 'not_applicable': [],
}
for p in props:
    pid = p['id']
    c = CHECKS.get(pid)
    if not c or not os.path.isdir(f"{V}/checks/{pid.lower()}"):
        m['not_applicable'].append({'property_id': pid, 'reason': NOT_YET})
        continue
    for e in m['engines']:
        if e['name'] in c['engine']:
            e['serves_properties'].append(pid)
    m['checks'].append({
      'property_id': pid,
      'quick_cmd': f'./run {pid.lower()} quick',
      'thorough_cmd': f'./run {pid.lower()} thorough',
      'evidence_file': f'/verif/evidence/{pid}.json',
      'replay_cmd_template': f'./run {pid.lower()} --replay {{path}}',
      'engine': c['engine'],
      'level_claimed': {'category': c['level'], 'text': c['text'], 'design_ref': 'DESIGN.md section ' + c['ref']},
      'level_note': c['note'],
      'technique': c['technique'],
    })
json.dump(m, open(f'{V}/MANIFEST.json', 'w'), indent=1)
print('claimed', [c['property_id'] for c in m['checks']])
