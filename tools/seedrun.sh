#!/bin/bash
# seedrun.sh <patch> <check> [tier]  — apply a seeded change to /repo itself, run the check, undo.
set -u
P=$1; C=$2; T=${3:-quick}
cd /verif
[ -z "$(git -C /repo status --porcelain)" ] || { echo "/repo not clean"; exit 2; }
git -C /repo apply "$P" || exit 2
trap 'git -C /repo checkout -- . ; git -C /repo clean -fdq' EXIT
VERIF_NO_EVIDENCE=1 ./run $C $T > /tmp/seedrun.$C.log 2>&1
rc=$?
grep -E "^VIOLATION|^KNOWN-FINDING" /tmp/seedrun.$C.log | head -5
grep -E "^C[0-9]+ (quick|thorough):" /tmp/seedrun.$C.log | cut -c1-200
echo "check-exit=$rc"
