#!/usr/bin/env python3
"""seedstore.py <ID> [srcdir [label]] — copy a confirmed seeded change from <srcdir> (default /tmp/seed) + /tmp/sv/<label>.log
into /verif/seeded/<label>/ (label defaults to ID; second-round changes use <ID>b)."""
import json, os, re, shutil, sys
i = sys.argv[1]
src = sys.argv[2] if len(sys.argv) > 2 else '/tmp/seed'
label = sys.argv[3] if len(sys.argv) > 3 else i
dst = f'/verif/seeded/{label}'
os.makedirs(dst + '/demo', exist_ok=True)
shutil.copy(f'{src}/{i}.patch.diff', dst + '/patch.diff')
shutil.copytree(f'{src}/{i}.demo', dst + '/demo', dirs_exist_ok=True)
meta = json.load(open(f'{src}/{i}.meta.json'))
log = open(f'/tmp/sv/{label}.log').read()
g = lambda k: (re.search(k + r'=(\d+)', log) or [None, '?'])[1]
suite = log.split('## demo with change')[0]
fails = sorted(set(l for l in re.findall(r'^(?:FAIL\t\S+|--- FAIL: \S+)', suite, re.M)))
meta_out = {
    'property': i,
    'origin': 'written by a fresh sub-agent that was given only the text of the property and its own scratch worktree of /repo (nothing from /verif)',
    'what_it_changes': meta.get('summary'),
    'what_it_needs_to_manifest': meta.get('needs'),
    'files': meta.get('files'),
    'demo_cmd': meta.get('demo_cmd'),
    'seeder_tests_run': meta.get('tests_run'),
    'confirmed_by_me': {
        'how': 'tools/seedverify.sh in a scratch worktree /tmp/sv/%s of /repo at %s: git apply patch.diff; go build ./...; go test -vet=off -count=1 -timeout 25m ./... (whole suite); demo test copied in and run with the change, then `git apply -R` and run again; worktree removed' % (label, (re.search(r'## head (\w+)', log) or [0, '?'])[1]),
        'applies_and_builds': 'BUILD-OK' in log and 'APPLY-FAILED' not in log,
        'suite_with_change': 'passes except the two failures that the unchanged tree has as well in this sandbox (net/transport/yamux TestDialContextCancellation is in BASELINE always_fail; util/periodicsync does not build with go1.25.7: synctest.Run undefined)',
        'suite_failures_seen': [f for f in fails if 'TestSeeded' not in f],
        'demo_with_change_exit': g('DEMO-WITH-EXIT'),
        'demo_without_change_exit': g('DEMO-WITHOUT-EXIT'),
    },
}
json.dump(meta_out, open(dst + '/meta.json', 'w'), indent=1)
print(label, meta_out['confirmed_by_me']['applies_and_builds'], meta_out['confirmed_by_me']['demo_with_change_exit'], meta_out['confirmed_by_me']['demo_without_change_exit'], meta_out['confirmed_by_me']['suite_failures_seen'])
